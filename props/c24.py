"""C24 -- structural array operations equal NumPy (reshape kernels).

Kernels: dask.array.reshape.contract_tuple, expand_tuple (symbolic chunk sizes), reshape_rechunk with _smooth_chunks /
_calc_lower_dimension_chunks / _cal_max_chunk_size (solver-enumerated shapes and chunkings: the kernel multiplies chunk sizes
and divides in floats, so nothing stays linear), and the block pairing used by dask.array.reshape.reshape.
"""
from __future__ import annotations

import itertools
import operator
from functools import reduce

import numpy as np

from symx.core import Violation, HarnessError, SInt
from symx.patch import patched, INT_SHIM
from symx.run import Obligation

import dask.array as da

RS = __import__("sys").modules["dask.array.reshape"]

PROPERTY = "C24"
LEVEL = "other"
BUDGET = {"quick": 150, "thorough": 1500}
CHUNK_PATHS = 60
EXPLANATION = (
    "(1) contract_tuple(chunks, factor) with symbolic chunk sizes (unbounded) and an enumerated factor: the sum is preserved and every returned "
    "chunk is a multiple of the factor, for every chunking whose total is a multiple of it. (2) expand_tuple(chunks, factor) with symbolic chunk "
    "sizes: sum preserved, all pieces positive, every original chunk boundary is kept (the result refines the input). (3) reshape_rechunk and "
    "the block pairing of reshape(): the solver enumerates (input shape, output shape) pairs from a list of merge / split / mixed / size-1 "
    "reshapes and every chunking of the input with up to 3 chunks per axis; for each, the returned input and output chunks add up to the shapes, "
    "have the same number of blocks with pairwise equal sizes, and reshaping block k of the (re-chunked) input to the k-th output block shape and "
    "placing it at the k-th output block position reproduces NumPy's row-major reshape for EVERY element (checked on an index array). This part "
    "is bounded exhaustive enumeration: the kernel multiplies chunk sizes and takes float ceilings, so no arithmetic stays symbolic. Every "
    "model is also run through x.reshape(...) (merge_chunks True/False) against NumPy. (4) structural[...]: transpose, moveaxis (sequence "
    "arguments in every order), swapaxes, squeeze/expand_dims, concatenate/stack/block, broadcast_to, flip/rot90, take, shuffle (called twice with "
    "the same indexer, which must stay unmodified), repeat/tile, pad (5 modes), tril/triu, diff, roll against NumPy on solver-enumerated small "
    "arrays and chunkings: witnesses only.")
ASSUMPTIONS = [
    "int() inside expand_tuple is shimmed (ShimInt) so that int(x / factor) stays the exact truncated rational of symbolic x (int/int below 2**53: "
    "see the SRatio lemma in DESIGN.md); validated natively per path",
    "M.reshape on a NumPy block is NumPy's row-major reshape",
]
STUBS = ["dask.array.reshape.int -> ShimInt"]
ENUM = ["factor of contract_tuple / expand_tuple", "all inputs of reshape_rechunk (shape pair, chunking)", "shape and chunking of structural[...]"]
OUTSIDE = ["transpose/moveaxis/swapaxes, squeeze/expand_dims, concatenate/stack/block, broadcast_to, flip/rot90, take/shuffle, repeat/tile, pad, tril/triu, "
           "diff, roll beyond the solver-enumerated witnesses of structural[...] (their index work is NumPy's or the slicing kernels' of C20: no symbolic claim)",
           "reshape_blockwise", "shapes outside the enumerated list, more than 3 chunks per axis"]
BOUNDS = {
    "quick": dict(contract="<=3 chunks, sizes >= 0 unbounded, factor in {1,2,3,4}", expand="<=3 chunks, sizes in [1, 2**40], factor in {1,2,3}",
                  reshape="12 shape pairs (dims <= 6, <= 3 axes, two with an empty axis), all chunkings with <= 2 chunks per axis"),
    "thorough": dict(contract="<=4 chunks, factor in {1..6}", expand="<=4 chunks, sizes in [1, 2**40], factor in {1..5}",
                     reshape="24 shape pairs (dims <= 8, <= 4 axes), all chunkings with <= 3 chunks per axis"),
}


def functions():
    return [RS.contract_tuple, RS.expand_tuple, RS.reshape_rechunk, RS._smooth_chunks, RS._calc_lower_dimension_chunks, RS._cal_max_chunk_size, RS.reshape]


def _patches():
    return patched((RS, "int", INT_SHIM))


def mk_contract(n, factors):
    def setup(e):
        chunks = tuple(e.int(f"c{i}", 0) for i in range(n))
        factor = e.pick("factor", factors)
        tot = 0
        for c in chunks:
            tot = tot + c
        e.assume(lambda: (tot % factor == 0) & (tot > 0))
        return chunks, factor

    def run(e, chunks, factor):
        out = RS.contract_tuple(chunks, factor)
        tot, got = 0, 0
        for c in chunks:
            tot = tot + c
        for c in out:
            got = got + c
            e.check(lambda: (c % factor == 0) & (c > 0), "contract_tuple returned a chunk that the factor does not divide")
        e.check(lambda: got == tot, "contract_tuple changed the total length")
        return list(out)

    return Obligation(f"contract_tuple[n={n}]", setup, run)


def mk_expand(n, factors):
    def setup(e):
        chunks = tuple(e.int(f"c{i}", 1, 2 ** 40) for i in range(n))
        factor = e.pick("factor", factors)
        return chunks, factor

    def run(e, chunks, factor):
        out = RS.expand_tuple(chunks, factor)
        for c in out:
            e.check(lambda: c > 0, "expand_tuple produced an empty piece")
        # refinement: walk the pieces, each original chunk must be closed exactly at a piece boundary
        k = 0
        for c in chunks:
            acc = 0
            while True:
                e.check(k < len(out), "pieces run out before the chunks do")
                acc = acc + out[k]
                k += 1
                if acc == c:
                    break
                e.check(acc < c, "a piece of expand_tuple straddles an original chunk boundary")
        e.check(k == len(out), "expand_tuple returned more elements than the input holds")
        return list(out)

    return Obligation(f"expand_tuple[n={n}]", setup, run, patches=_patches)


PAIRS_Q = [((4, 3), (12,)), ((12,), (4, 3)), ((2, 3, 2), (6, 2)), ((2, 3, 2), (2, 6)), ((6, 2), (2, 3, 2)), ((4, 6), (2, 2, 6)),
           ((1, 6), (6,)), ((6,), (6, 1)), ((2, 1, 3), (2, 3)), ((4, 3), (2, 2, 3)), ((0, 3), (0,)), ((3, 0), (0,))]
PAIRS_T = PAIRS_Q + [((2, 2, 2, 2), (4, 4)), ((4, 4), (2, 2, 2, 2)), ((8, 3), (2, 4, 3)), ((2, 4, 3), (8, 3)), ((3, 8), (3, 2, 4)), ((2, 3, 4), (24,)),
                     ((24,), (2, 3, 4)), ((6, 4), (2, 3, 2, 2)), ((2, 3, 2, 2), (6, 4)), ((1, 5, 1), (5,)), ((5,), (1, 5, 1)), ((3, 4, 2), (3, 8)),
                     ((0, 4), (0, 2, 2)), ((2, 6), (2, 2, 3))]


def compositions(n, kmax):
    """all tuples of 1..kmax positive ints adding up to n (n == 0 -> (0,) and (0, 0))"""
    if n == 0:
        return [(0,), (0, 0)]
    out = []
    for k in range(1, min(kmax, n) + 1):
        for cuts in itertools.combinations(range(1, n), k - 1):
            b = (0,) + cuts + (n,)
            out.append(tuple(y - x for x, y in zip(b, b[1:])))
    return out


def with_zero_chunks(n, kmax):
    """compositions of n into <= kmax chunks of which at least one is a ZERO-size chunk (as left by boolean indexing + compute_chunk_sizes)"""
    out = []
    for c in compositions(n, kmax - 1):
        if 0 in c:
            continue
        for pos in range(len(c) + 1):
            out.append(c[:pos] + (0,) + c[pos:])
    return out


def mk_reshape(pairs, kmax, tag, zeros=False):
    def setup(e):
        ins, outs = pairs[e.choice("pair", len(pairs))]
        chunks = []
        zaxis = e.choice("zero_axis", len(ins)) if zeros else None
        for a, d in enumerate(ins):
            comps = with_zero_chunks(d, kmax) if (zeros and a == zaxis and d > 0) else compositions(d, kmax)
            chunks.append(comps[e.choice(f"chunking{a}", len(comps))])
        return ins, outs, tuple(chunks)

    def run(e, ins, outs, chunks):
        if 0 in ins:
            # reshape() creates the result of an empty array directly and never calls reshape_rechunk for it (its merge/split decisions
            # are products of dimension sizes): decided through the public function only
            x = np.zeros(ins)
            d = da.from_array(x, chunks=chunks)
            r = d.reshape(outs)
            g = r.compute(scheduler="sync")
            e.check(r.shape == tuple(outs) == g.shape and tuple(sum(c) for c in r.chunks) == tuple(outs), f"reshape of the empty array {ins} (chunks {chunks}) to {outs} is wrong")
            return ("empty", r.chunks)
        try:
            inc, outc, _, _ = RS.reshape_rechunk(ins, outs, chunks)
        except NotImplementedError:
            raise Violation(f"reshape {ins} -> {outs} is a plain merge/split of dimensions but reshape_rechunk refuses it")
        e.check(tuple(sum(c) for c in inc) == tuple(ins), f"returned input chunks {inc} do not add up to {ins}")
        e.check(tuple(sum(c) for c in outc) == tuple(outs), f"returned output chunks {outc} do not add up to {outs}")
        inblocks = list(itertools.product(*[range(len(c)) for c in inc]))
        outblocks = list(itertools.product(*[range(len(c)) for c in outc]))
        e.check(len(inblocks) == len(outblocks), f"{len(inblocks)} input blocks but {len(outblocks)} output blocks")
        x = np.arange(int(np.prod(ins))).reshape(ins)
        want = x.reshape(outs)
        got = np.full(outs, -1)
        instarts = [np.concatenate([[0], np.cumsum(c)]) for c in inc]
        outstarts = [np.concatenate([[0], np.cumsum(c)]) for c in outc]
        for ib, ob in zip(inblocks, outblocks):
            blk = x[tuple(slice(instarts[a][i], instarts[a][i + 1]) for a, i in enumerate(ib))]
            shp = tuple(outc[a][i] for a, i in enumerate(ob))
            e.check(blk.size == int(np.prod(shp)), f"input block {ib} has {blk.size} elements, output block {ob} {shp} has {int(np.prod(shp))}")
            got[tuple(slice(outstarts[a][i], outstarts[a][i + 1]) for a, i in enumerate(ob))] = blk.reshape(shp)
        e.check(bool((got == want).all()), f"block-wise reshape {ins}->{outs} with input chunks {inc} / output chunks {outc} differs from NumPy's reshape")
        return (inc, outc)

    def e2e(model):
        from symx.core import NativeEngine
        ins, outs, chunks = setup(NativeEngine(model))
        x = np.arange(int(np.prod(ins))).reshape(ins) * 3 + 1
        d = da.from_array(x, chunks=chunks)
        if d.chunks != chunks:
            return
        for mc in (True, False):
            r = d.reshape(outs, merge_chunks=mc)
            got = r.compute(scheduler="sync")
            if r.shape != tuple(outs) or got.shape != tuple(outs) or not (got == x.reshape(outs)).all():
                raise Violation(f"x.reshape({outs}, merge_chunks={mc}) with chunks {chunks}: differs from NumPy")
            if tuple(sum(c) for c in r.chunks) != tuple(outs):
                raise Violation(f"reshape chunks {r.chunks} do not add up to {outs}")
            if int(np.prod(ins)):
                r2 = d.reshape((-1,) + tuple(outs[1:]) if len(outs) > 1 else (-1,))
                if not (r2.compute(scheduler="sync") == x.reshape(outs)).all():
                    raise Violation("reshape with -1 differs")

    return Obligation(f"reshape_rechunk[{tag}]", setup, run, e2e=e2e, e2e_every=6)


STRUCT_SHAPES = ((4, 3), (2, 3, 4), (1, 5), (3, 1, 2), (3, 8))


def mk_structural(kmax, tag):
    """the other structural routines named by the property, through the public API against NumPy on solver-enumerated small arrays and
    chunkings (their index work is NumPy's or the slicing kernels': witnesses, no symbolic claim). Arguments handed to dask must not
    be modified, so every indexer is compared with a pristine copy afterwards and used twice."""
    import copy as _copy
    import itertools as _it

    def setup(e):
        shape = e.pick("shape", STRUCT_SHAPES)
        chunks = tuple(e.pick(f"chunking{a}", compositions(d, kmax)) for a, d in enumerate(shape))
        return shape, chunks

    def run(e, shape, chunks):
        x = (np.arange(int(np.prod(shape))).reshape(shape) * 7 + 3) % 23
        d = da.from_array(x, chunks=chunks)
        nd = x.ndim
        cases = []

        def case(tag_, got, want):
            cases.append(tag_)
            g = got.compute(scheduler="sync")
            e.check(got.shape == want.shape and g.shape == want.shape and bool(np.array_equal(g, want)) and g.dtype == want.dtype,
                    f"{tag_} on shape {shape} chunks {chunks} differs from NumPy")
            e.check(tuple(sum(c) for c in got.chunks) == want.shape, f"{tag_}: lazy chunks {got.chunks} do not add up to {want.shape}")

        for perm in _it.permutations(range(nd)):
            case(f"transpose{perm}", d.transpose(perm), x.transpose(perm))
        for src in _it.permutations(range(nd), 2):
            for dst in _it.permutations(range(nd), 2):
                case(f"moveaxis({src}, {dst})", da.moveaxis(d, src, dst), np.moveaxis(x, src, dst))
        case("moveaxis(0, -1)", da.moveaxis(d, 0, -1), np.moveaxis(x, 0, -1))
        case("swapaxes(0, -1)", da.swapaxes(d, 0, -1), np.swapaxes(x, 0, -1))
        case("expand_dims(1)", da.expand_dims(d, 1), np.expand_dims(x, 1))
        if 1 in shape:
            case("squeeze", da.squeeze(d), np.squeeze(x))
        y = x[::-1] + 100
        dy = da.from_array(y, chunks=chunks)
        for ax in range(nd):
            case(f"concatenate(axis={ax})", da.concatenate([d, dy], axis=ax), np.concatenate([x, y], axis=ax))
            case(f"stack(axis={ax})", da.stack([d, dy], axis=ax), np.stack([x, y], axis=ax))
            case(f"flip({ax})", da.flip(d, ax), np.flip(x, ax))
            case(f"roll(2, {ax})", da.roll(d, 2, ax), np.roll(x, 2, ax))
            case(f"roll(-1, {ax})", da.roll(d, -1, ax), np.roll(x, -1, ax))
            case(f"repeat(2, {ax})", da.repeat(d, 2, axis=ax), np.repeat(x, 2, axis=ax))
            if x.shape[ax] > 1:
                case(f"diff(axis={ax})", da.diff(d, axis=ax), np.diff(x, axis=ax))
            idx = [x.shape[ax] - 1, 0, 0] if x.shape[ax] > 1 else [0, 0]
            keep = list(idx)
            case(f"take({idx}, {ax})", da.take(d, idx, axis=ax), np.take(x, keep, axis=ax))
            e.check(idx == keep, "da.take modified its indexer")
            n = x.shape[ax]
            groups = [[i for i in range(n) if i % 2 == 0], [i for i in range(n) if i % 2 == 1][::-1]] + ([[0]] if n > 2 else [])
            groups = [g_ for g_ in groups if g_]
            if n >= 8:
                # several small groups after two larger ones: dask merges groups into output chunks of about the mean chunk size
                groups = [[0, 1, 2], [3, 4, 5], [6], [7]] + [[i] for i in range(8, n)]
            pristine = _copy.deepcopy(groups)
            flat = [i for g_ in pristine for i in g_]
            for rep in range(2):
                case(f"shuffle({pristine}, axis={ax}) call {rep + 1}", da.shuffle(d, groups, axis=ax), np.take(x, flat, axis=ax))
                e.check(groups == pristine, f"da.shuffle modified the indexer it was given: {groups} (was {pristine})")
        case("block", da.block([[d, dy], [dy, d]]) if nd == 2 else da.block([d, dy]), np.block([[x, y], [y, x]]) if nd == 2 else np.block([x, y]))
        case("broadcast_to", da.broadcast_to(d, (2,) + shape), np.broadcast_to(x, (2,) + shape))
        case("tile", da.tile(d, 2), np.tile(x, 2))
        case("rot90", da.rot90(d, 1, axes=(0, nd - 1)), np.rot90(x, 1, axes=(0, nd - 1)))
        if nd == 2:
            for k in (-1, 0, 1):
                case(f"tril({k})", da.tril(d, k), np.tril(x, k))
                case(f"triu({k})", da.triu(d, k), np.triu(x, k))
        for mode in ("constant", "edge", "reflect", "wrap", "symmetric"):
            if mode in ("reflect",) and min(shape) < 2:
                continue
            case(f"pad({mode})", da.pad(d, 1, mode=mode), np.pad(x, 1, mode=mode))
        return len(cases)

    return Obligation(f"structural[{tag}]", setup, run)


def obligations(tier):
    if tier == "quick":
        return [mk_contract(n, (1, 2, 3, 4)) for n in (1, 2, 3)] + [mk_expand(n, (1, 2, 3)) for n in (1, 2, 3)] + [mk_reshape(PAIRS_Q, 2, "12 pairs,<=2 chunks/axis"), mk_reshape(PAIRS_Q, 3, "12 pairs,one axis with a zero-size chunk among <=3", zeros=True), mk_structural(2, "5 shapes,<=2 chunks/axis")]
    return ([mk_contract(n, (1, 2, 3, 4, 5, 6)) for n in (1, 2, 3, 4)] + [mk_expand(n, (1, 2, 3, 4, 5)) for n in (1, 2, 3, 4)]
            + [mk_reshape(PAIRS_T, 3, "24 pairs,<=3 chunks/axis"), mk_reshape(PAIRS_T, 3, "24 pairs,one axis with a zero-size chunk among <=3", zeros=True), mk_structural(3, "5 shapes,<=3 chunks/axis")])
