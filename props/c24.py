"""C24 -- structural array operations equal NumPy (reshape kernels).

Kernels: dask.array.reshape.contract_tuple, expand_tuple (symbolic chunk sizes), reshape_rechunk with _smooth_chunks /
_calc_lower_dimension_chunks / _cal_max_chunk_size (solver-enumerated shapes and chunkings: the kernel multiplies chunk sizes
and divides in floats, so nothing stays linear), and the block pairing used by dask.array.reshape.reshape.
"""
from __future__ import annotations

import itertools
import operator
from functools import reduce

import numpy as np

from symx.core import Violation, HarnessError, SInt
from symx.patch import patched, INT_SHIM
from symx.run import Obligation

import dask.array as da

RS = __import__("sys").modules["dask.array.reshape"]

PROPERTY = "C24"
LEVEL = "other"
BUDGET = {"quick": 150, "thorough": 1500}
CHUNK_PATHS = 60
EXPLANATION = (
    "(1) contract_tuple(chunks, factor) with symbolic chunk sizes (unbounded) and an enumerated factor: the sum is preserved and every returned "
    "chunk is a multiple of the factor, for every chunking whose total is a multiple of it. (2) expand_tuple(chunks, factor) with symbolic chunk "
    "sizes: sum preserved, all pieces positive, every original chunk boundary is kept (the result refines the input). (3) reshape_rechunk and "
    "the block pairing of reshape(): the solver enumerates (input shape, output shape) pairs from a list of merge / split / mixed / size-1 "
    "reshapes and every chunking of the input with up to 3 chunks per axis; for each, the returned input and output chunks add up to the shapes, "
    "have the same number of blocks with pairwise equal sizes, and reshaping block k of the (re-chunked) input to the k-th output block shape and "
    "placing it at the k-th output block position reproduces NumPy's row-major reshape for EVERY element (checked on an index array). This part "
    "is bounded exhaustive enumeration: the kernel multiplies chunk sizes and takes float ceilings, so no arithmetic stays symbolic. Every "
    "model is also run through x.reshape(...) (merge_chunks True/False) against NumPy.")
ASSUMPTIONS = [
    "int() inside expand_tuple is shimmed (ShimInt) so that int(x / factor) stays the exact truncated rational of symbolic x (int/int below 2**53: "
    "see the SRatio lemma in DESIGN.md); validated natively per path",
    "M.reshape on a NumPy block is NumPy's row-major reshape",
]
STUBS = ["dask.array.reshape.int -> ShimInt"]
ENUM = ["factor of contract_tuple / expand_tuple", "all inputs of reshape_rechunk (shape pair, chunking)"]
OUTSIDE = ["transpose/moveaxis/swapaxes, squeeze/expand_dims, concatenate/stack/block, broadcast_to, flip/rot90, take/shuffle, repeat/tile, pad, tril/triu, "
           "diff, roll: their index work is done by NumPy or by the slicing kernels decided under C20 (not re-claimed here)",
           "reshape_blockwise", "shapes outside the enumerated list, more than 3 chunks per axis"]
BOUNDS = {
    "quick": dict(contract="<=3 chunks, sizes >= 0 unbounded, factor in {1,2,3,4}", expand="<=3 chunks, sizes in [1, 2**40], factor in {1,2,3}",
                  reshape="10 shape pairs (dims <= 6, <= 3 axes), all chunkings with <= 2 chunks per axis"),
    "thorough": dict(contract="<=4 chunks, factor in {1..6}", expand="<=4 chunks, sizes in [1, 2**40], factor in {1..5}",
                     reshape="24 shape pairs (dims <= 8, <= 4 axes), all chunkings with <= 3 chunks per axis"),
}


def functions():
    return [RS.contract_tuple, RS.expand_tuple, RS.reshape_rechunk, RS._smooth_chunks, RS._calc_lower_dimension_chunks, RS._cal_max_chunk_size, RS.reshape]


def _patches():
    return patched((RS, "int", INT_SHIM))


def mk_contract(n, factors):
    def setup(e):
        chunks = tuple(e.int(f"c{i}", 0) for i in range(n))
        factor = e.pick("factor", factors)
        tot = 0
        for c in chunks:
            tot = tot + c
        e.assume(lambda: (tot % factor == 0) & (tot > 0))
        return chunks, factor

    def run(e, chunks, factor):
        out = RS.contract_tuple(chunks, factor)
        tot, got = 0, 0
        for c in chunks:
            tot = tot + c
        for c in out:
            got = got + c
            e.check(lambda: (c % factor == 0) & (c > 0), "contract_tuple returned a chunk that the factor does not divide")
        e.check(lambda: got == tot, "contract_tuple changed the total length")
        return list(out)

    return Obligation(f"contract_tuple[n={n}]", setup, run)


def mk_expand(n, factors):
    def setup(e):
        chunks = tuple(e.int(f"c{i}", 1, 2 ** 40) for i in range(n))
        factor = e.pick("factor", factors)
        return chunks, factor

    def run(e, chunks, factor):
        out = RS.expand_tuple(chunks, factor)
        for c in out:
            e.check(lambda: c > 0, "expand_tuple produced an empty piece")
        # refinement: walk the pieces, each original chunk must be closed exactly at a piece boundary
        k = 0
        for c in chunks:
            acc = 0
            while True:
                e.check(k < len(out), "pieces run out before the chunks do")
                acc = acc + out[k]
                k += 1
                if acc == c:
                    break
                e.check(acc < c, "a piece of expand_tuple straddles an original chunk boundary")
        e.check(k == len(out), "expand_tuple returned more elements than the input holds")
        return list(out)

    return Obligation(f"expand_tuple[n={n}]", setup, run, patches=_patches)


PAIRS_Q = [((4, 3), (12,)), ((12,), (4, 3)), ((2, 3, 2), (6, 2)), ((2, 3, 2), (2, 6)), ((6, 2), (2, 3, 2)), ((4, 6), (2, 2, 6)),
           ((1, 6), (6,)), ((6,), (6, 1)), ((2, 1, 3), (2, 3)), ((4, 3), (2, 2, 3))]
PAIRS_T = PAIRS_Q + [((2, 2, 2, 2), (4, 4)), ((4, 4), (2, 2, 2, 2)), ((8, 3), (2, 4, 3)), ((2, 4, 3), (8, 3)), ((3, 8), (3, 2, 4)), ((2, 3, 4), (24,)),
                     ((24,), (2, 3, 4)), ((6, 4), (2, 3, 2, 2)), ((2, 3, 2, 2), (6, 4)), ((1, 5, 1), (5,)), ((5,), (1, 5, 1)), ((3, 4, 2), (3, 8)),
                     ((0, 3), (0,)), ((2, 6), (2, 2, 3))]


def compositions(n, kmax):
    """all tuples of 1..kmax positive ints adding up to n (n == 0 -> ((0,),))"""
    if n == 0:
        return [(0,)]
    out = []
    for k in range(1, min(kmax, n) + 1):
        for cuts in itertools.combinations(range(1, n), k - 1):
            b = (0,) + cuts + (n,)
            out.append(tuple(y - x for x, y in zip(b, b[1:])))
    return out


def mk_reshape(pairs, kmax, tag):
    def setup(e):
        ins, outs = pairs[e.choice("pair", len(pairs))]
        chunks = []
        for a, d in enumerate(ins):
            comps = compositions(d, kmax)
            chunks.append(comps[e.choice(f"chunking{a}", len(comps))])
        return ins, outs, tuple(chunks)

    def run(e, ins, outs, chunks):
        try:
            inc, outc, _, _ = RS.reshape_rechunk(ins, outs, chunks)
        except NotImplementedError:
            raise Violation(f"reshape {ins} -> {outs} is a plain merge/split of dimensions but reshape_rechunk refuses it")
        e.check(tuple(sum(c) for c in inc) == tuple(ins), f"returned input chunks {inc} do not add up to {ins}")
        e.check(tuple(sum(c) for c in outc) == tuple(outs), f"returned output chunks {outc} do not add up to {outs}")
        inblocks = list(itertools.product(*[range(len(c)) for c in inc]))
        outblocks = list(itertools.product(*[range(len(c)) for c in outc]))
        e.check(len(inblocks) == len(outblocks), f"{len(inblocks)} input blocks but {len(outblocks)} output blocks")
        x = np.arange(int(np.prod(ins))).reshape(ins)
        want = x.reshape(outs)
        got = np.full(outs, -1)
        instarts = [np.concatenate([[0], np.cumsum(c)]) for c in inc]
        outstarts = [np.concatenate([[0], np.cumsum(c)]) for c in outc]
        for ib, ob in zip(inblocks, outblocks):
            blk = x[tuple(slice(instarts[a][i], instarts[a][i + 1]) for a, i in enumerate(ib))]
            shp = tuple(outc[a][i] for a, i in enumerate(ob))
            e.check(blk.size == int(np.prod(shp)), f"input block {ib} has {blk.size} elements, output block {ob} {shp} has {int(np.prod(shp))}")
            got[tuple(slice(outstarts[a][i], outstarts[a][i + 1]) for a, i in enumerate(ob))] = blk.reshape(shp)
        e.check(bool((got == want).all()), f"block-wise reshape {ins}->{outs} with input chunks {inc} / output chunks {outc} differs from NumPy's reshape")
        return (inc, outc)

    def e2e(model):
        from symx.core import NativeEngine
        ins, outs, chunks = setup(NativeEngine(model))
        x = np.arange(int(np.prod(ins))).reshape(ins) * 3 + 1
        d = da.from_array(x, chunks=chunks)
        if d.chunks != chunks:
            return
        for mc in (True, False):
            r = d.reshape(outs, merge_chunks=mc)
            got = r.compute(scheduler="sync")
            if r.shape != tuple(outs) or got.shape != tuple(outs) or not (got == x.reshape(outs)).all():
                raise Violation(f"x.reshape({outs}, merge_chunks={mc}) with chunks {chunks}: differs from NumPy")
            if tuple(sum(c) for c in r.chunks) != tuple(outs):
                raise Violation(f"reshape chunks {r.chunks} do not add up to {outs}")
            if int(np.prod(ins)):
                r2 = d.reshape((-1,) + tuple(outs[1:]) if len(outs) > 1 else (-1,))
                if not (r2.compute(scheduler="sync") == x.reshape(outs)).all():
                    raise Violation("reshape with -1 differs")

    return Obligation(f"reshape_rechunk[{tag}]", setup, run, e2e=e2e, e2e_every=6)


def obligations(tier):
    if tier == "quick":
        return [mk_contract(n, (1, 2, 3, 4)) for n in (1, 2, 3)] + [mk_expand(n, (1, 2, 3)) for n in (1, 2, 3)] + [mk_reshape(PAIRS_Q, 2, "10 pairs,<=2 chunks/axis")]
    return ([mk_contract(n, (1, 2, 3, 4, 5, 6)) for n in (1, 2, 3, 4)] + [mk_expand(n, (1, 2, 3, 4, 5)) for n in (1, 2, 3, 4)]
            + [mk_reshape(PAIRS_T, 3, "24 pairs,<=3 chunks/axis")])
