"""C50 -- block-wise text reading reproduces the file exactly"""
from __future__ import annotations

import os
import tempfile

from symx.core import Violation, HarnessError, ShimInt
from symx.patch import patched
from symx.run import Obligation
from symx import ch

import dask.bytes.core as BC
import dask.bag.text as BT

PROPERTY = "C50"
LEVEL = "other"
BUDGET = {"quick": 150, "thorough": 1200}
EXPLANATION = (
    "Two engines. (1) CrossHair (symbolic `str` over z3's string theory) on the real dask.bag.text.decode and file_to_blocks with a "
    "free-form text and delimiter: result == the text split after each delimiter (left-to-right, non-overlapping) with no empty "
    "trailing element, and the pieces concatenate to the text; 'Confirmed over all paths' within the length bounds, each with a "
    "reachability twin. (2) symx on the offset/length loop of dask.bytes.core.read_bytes with a fake filesystem whose file size is a "
    "symbolic integer and a symbolic blocksize: offsets start at 0 (1 with not_zero), strictly increase, every length is positive, "
    "consecutive blocks are contiguous and the lengths add up to the size. The loop computes in floats (size / (size // blocksize)), "
    "so both operands are concretised by the solver and CPython's IEEE arithmetic is used: bounded exhaustive. Every (size, blocksize) "
    "witness is replayed end-to-end: read_bytes on a real temp file (blocks concatenate to the content, every boundary falls just "
    "after a delimiter) and read_text for that blocksize vs blocksize=None vs the reference split.")
ASSUMPTIONS = [
    "I/O objects are duck-typed fakes (a block whose .decode() returns the symbolic str; a lazy file whose .read() returns it)",
    "fsspec's read_block delimiter seek is third-party code: exercised only by the e2e witnesses",
    "get_fs_token_paths and delayed() are stubbed in the symx run of read_bytes so that only dask's own offset arithmetic executes",
]
STUBS = ["dask.bytes.core.int -> ShimInt (keeps the symbolic blocksize symbolic through int())", "dask.bytes.core.get_fs_token_paths -> fake fs with symbolic size", "dask.bytes.core.delayed -> recorder"]
ENUM = ["size and blocksize in read_bytes (float arithmetic concretises both)"]
OUTSIDE = ["encodings other than utf-8, compression", "newline-family delimiters handled by io.StringIO (C code): only e2e witnesses",
           "texts longer than the CrossHair bounds"]
BOUNDS = {
    "quick": dict(crosshair="len(text) <= 4, 1 <= len(delimiter) <= 2, per-condition timeout 40 s", read_bytes="size in [0,40], blocksize in [1,40]"),
    "thorough": dict(crosshair="len(text) <= 6, 1 <= len(delimiter) <= 3, per-condition timeout 300 s", read_bytes="size in [0,120], blocksize in [1,120]"),
}


def functions():
    return [BT.decode, BT.file_to_blocks, BC.read_bytes]


class FakeFS:
    def __init__(self, size):
        self.size = size

    def info(self, path):
        return {"size": self.size}

    def ukey(self, path):
        return "ukey"


def mk_offsets(hi, not_zero):
    def setup(e):
        size = e.int("size", 0, hi)
        bs = e.int("blocksize", 1, hi)
        return size, bs

    def run(e, size, bs):
        calls = []

        def fake_delayed(f):
            def rec(of, o, l, delim, dask_key_name=None):
                calls.append((o, l))
                return (o, l)
            return rec

        fs = FakeFS(size)
        with patched((BC, "get_fs_token_paths", lambda *a, **k: (fs, "tok", ["p"])), (BC, "delayed", fake_delayed)):
            sample, blocks = BC.read_bytes("p", delimiter=b"\n", blocksize=bs, sample=False, not_zero=not_zero)
        e.check(len(blocks) == 1, "one list of blocks per file")
        if size == 0:
            e.check(calls == [], "blocks for an empty file")
            return []
        first = 1 if not_zero else 0
        e.check(len(calls) >= 1 and calls[0][0] == first, "first offset wrong")
        pos = first
        for o, l in calls:
            e.check(o == pos, "blocks not contiguous")
            if not (not_zero and o == first):
                e.check(l > 0, "non-positive block length")
            pos = o + l
        e.check(pos == size, "blocks do not cover the file")
        return list(calls)

    def e2e(model):
        size, bs = model["size"], model["blocksize"]
        if not_zero or size == 0:
            return
        import dask
        import dask.bag as db
        delim = b"ab"
        # content with delimiters at irregular places, including a trailing one for some sizes
        unit = b"x\r\nxab" + b"y\rab" + b"zzz\nzzab" + b"ab"
        content = (unit * (size // len(unit) + 1))[:size]
        with tempfile.TemporaryDirectory() as d:
            fn = os.path.join(d, "f.txt")
            with open(fn, "wb") as f:
                f.write(content)
            _, blocks = BC.read_bytes(fn, delimiter=delim, blocksize=bs, sample=False)
            got = dask.compute(*blocks[0], scheduler="sync")
            if b"".join(got) != content:
                raise Violation(f"read_bytes blocks do not concatenate to the file: size={size} blocksize={bs}")
            for i, b in enumerate(got[:-1]):
                # a block may end without a delimiter only when it runs to the end of the file (all later blocks are empty)
                if b and not b.endswith(delim) and b"".join(got[i + 1:]):
                    raise Violation(f"block boundary not just after a delimiter: size={size} blocksize={bs} block={b!r}")
            text = content.decode()
            ref = []
            i = 0
            while True:
                j = text.find("ab", i)
                if j < 0:
                    break
                ref.append(text[i:j + 2])
                i = j + 2
            if i < len(text):
                ref.append(text[i:])
            a = db.read_text(fn, blocksize=bs, linedelimiter="ab").compute(scheduler="sync")
            b2 = db.read_text(fn, blocksize=None, linedelimiter="ab").compute(scheduler="sync")
            if list(a) != ref or list(b2) != ref:
                raise Violation(f"read_text lines differ: size={size} blocksize={bs}: {list(a)[:6]} / {list(b2)[:6]} / ref {ref[:6]}")
            c3 = db.read_text([fn, fn], files_per_partition=2, linedelimiter="ab").compute(scheduler="sync")
            if list(c3) != ref + ref:
                raise Violation(f"read_text(files_per_partition=2) lines differ: size={size}: {list(c3)[:6]} / ref {ref[:6]}")
            c4 = db.read_text(fn, blocksize=bs, linedelimiter="ab", include_path=True).compute(scheduler="sync")
            if [x for x, _ in c4] != ref or any(os.path.basename(pth) != "f.txt" for _, pth in c4):
                raise Violation(f"read_text(include_path=True) lines differ: size={size} blocksize={bs}")
            # several files of different content in one call (glob and list), with and without a blocksize
            fn2 = os.path.join(d, "g.txt")
            content2 = (b"Qab" + content[::-1])[: size // 2 + 1]
            with open(fn2, "wb") as f:
                f.write(content2)
            t2 = content2.decode()
            ref2, i2 = [], 0
            while True:
                j2 = t2.find("ab", i2)
                if j2 < 0:
                    break
                ref2.append(t2[i2:j2 + 2])
                i2 = j2 + 2
            if i2 < len(t2):
                ref2.append(t2[i2:])
            for kw in (dict(blocksize=bs), dict(blocksize=None), dict(files_per_partition=1)):
                m = db.read_text([fn, fn2], linedelimiter="ab", **kw).compute(scheduler="sync")
                if list(m) != ref + ref2:
                    raise Violation(f"read_text([f, g], {kw}) lines differ from the two files split after each delimiter (size={size})")
            _, blocks2 = BC.read_bytes([fn, fn2], delimiter=delim, blocksize=bs, sample=False)
            if len(blocks2) != 2 or b"".join(dask.compute(*blocks2[1], scheduler="sync")) != content2:
                raise Violation(f"read_bytes([f, g]) blocks of the second file do not concatenate to it (size={size} blocksize={bs})")
            # two blocksizes of the same file evaluated in ONE graph (block keys must not collide)
            bs2 = bs + 3
            x1 = db.read_text(fn, blocksize=bs, linedelimiter="ab")
            x2 = db.read_text(fn, blocksize=bs2, linedelimiter="ab")
            r1, r2 = dask.compute(x1, x2, scheduler="sync")
            if list(r1) != ref or list(r2) != ref:
                raise Violation(f"read_text with blocksize {bs} and {bs2} computed together: {len(r1)} and {len(r2)} lines, reference {len(ref)}")

    return Obligation(f"read_bytes_offsets[size<={hi},not_zero={not_zero}]", setup, run, e2e=e2e, e2e_every=6,
                      patches=lambda: patched((BC, "int", ShimInt)))


def mk_keys(hi):
    """block task keys: two read_bytes calls on the same file with blocksizes bs1, bs2 may share a key only for identical (offset, length)"""
    def setup(e):
        size = e.int("size", 1, hi)
        bs1 = e.int("bs1", 1, hi)
        bs2 = e.int("bs2", 1, hi)
        e.assume(lambda: bs1 < bs2)
        return size, bs1, bs2

    def run(e, size, bs1, bs2):
        fs = FakeFS(size)
        seen = {}
        out = []
        for bs in (bs1, bs2):
            calls = []

            def fake_delayed(f):
                def rec(of, o, l, delim, dask_key_name=None):
                    calls.append((dask_key_name, o, l))
                    return (o, l)
                return rec

            with patched((BC, "get_fs_token_paths", lambda *a, **k: (fs, "tok", ["p"])), (BC, "delayed", fake_delayed)):
                BC.read_bytes("p", delimiter=b"\n", blocksize=bs, sample=False)
            names = [c[0] for c in calls]
            e.check(len(set(names)) == len(names), "two blocks of one read share a task key")
            for name, o, l in calls:
                if name in seen:
                    e.check(seen[name] == (o, l), f"task key {name} names two different byte ranges {seen[name]} and {(o, l)} (blocksize {bs1} vs {bs2}): "
                                                  "computed in one graph one block would replace the other")
                seen[name] = (o, l)
            out.append(len(calls))
        return out

    return Obligation(f"block_keys[size<={hi}]", setup, run, patches=lambda: patched((BC, "int", ShimInt)))


def obligations(tier):
    hi = 40 if tier == "quick" else 120
    return [mk_offsets(hi, False), mk_offsets(hi, True), mk_keys(14 if tier == "quick" else 30)]


def extra(tier, known, seed):
    if tier == "quick":
        return ch.run_contracts("props.ch_c50", ["decode", "file_to_blocks"], 40, known, PROPERTY)
    return ch.run_contracts("props.ch_c50", ["decode", "file_to_blocks", "decode6", "file_to_blocks6"], 300, known, PROPERTY)


def replay(rec):
    return ch.replay(rec)
