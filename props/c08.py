"""C08 -- task-spec conversion and execution preserve the graph's meaning.

Kernels: dask._task_spec.convert_legacy_task / convert_legacy_graph, Task / Alias / DataNode / List / Tuple / Set / Dict
(construction, dependencies, __call__, pickling), DependenciesMapping, execute_graph, resolve_aliases, and dask.core.get / quote.
"""
from __future__ import annotations

import pickle

from symx.core import SInt, Violation, NativeEngine
from symx.patch import patched, INT_SHIM
from symx.run import Obligation

import dask
import dask.core as C
import dask.threaded
import dask._task_spec as TS
from dask._task_spec import Alias, DataNode, Dict, GraphNode, List, Set, Task, TaskRef, Tuple

PROPERTY = "C08"
LEVEL = "other"
BUDGET = {"quick": 150, "thorough": 1500}
EXPLANATION = (
    "Bounded symbolic execution of the legacy-graph converter and the task objects. Legacy terms are drawn from a choice grammar "
    "(call tuple (fn, arg...), list, tuple not headed by a callable, dict argument, literal, key-like literal, quote()d value) to depth <= 2 and width <= 2 "
    "inside graphs whose keys are the falsy int 0, the int 1, the tuple ('t', 1) and strings; every int leaf is a SYMBOLIC int whose range "
    "contains keys and non-keys and every ('t', w) leaf has a symbolic w, so whether a literal is a reference is decided by the solver "
    "(value == key forks / the converter's `in all_keys` hash concretisation), not sampled; ints the converter never compares with keys "
    "(inside quoted values, dict arguments, task-object arguments) stay fully symbolic and their equalities are proved by z3. "
    "Functions are tuple builders (tag,)+args so results expose argument order, nesting and container types. Oracle: an independent "
    "evaluator of the same legacy dict written from the documented semantics (docs/source/spec.rst: a tuple headed by a callable is a call, a list "
    "is a list of computations, a value equal to a key is that key's value) plus an independent walk collecting the keys a term references. "
    "Asserted per path: convert_legacy_graph keeps every key and yields GraphNodes carrying that key; each node's .dependencies (and DependenciesMapping) "
    "equal the referenced keys; node(values) equals the oracle value; dask.core.get on the legacy graph (one key, all keys, with some keys "
    "supplied through cache=) equals the oracle; dict arguments whose values are legacy terms (key-like literal, nested call, list of keys, plain literal) must be "
    "evaluated elementwise and their keys reported as dependencies (legacy_dict obligations); resolve_aliases followed by execute_graph returns the same requested values. A second family "
    "builds task-object graphs directly (Task with args/kwargs, TaskRef, Alias, DataNode, nested List/Tuple/Set/Dict in all three Dict "
    "constructor forms) from an AST with its own evaluator; key-like literals there must NOT be dereferenced. Every path model is re-run "
    "natively and, in e2e, every node and the whole converted graph are pickled and unpickled (dependencies and computed value preserved) and "
    "the converted graph is also executed in execute_graph's list-of-nodes form and the legacy graph is run through dask.get (synchronous scheduler) and dask.threaded.get.")
ASSUMPTIONS = [
    "graphs are acyclic and every reference points to a key of the graph or of the supplied cache (ints that would equal a later key are excluded by assumption)",
    "a tuple that is not headed by a callable is, unless the whole tuple equals a key, evaluated elementwise and rebuilt as a tuple: the property text and "
    "spec.rst are silent about such tuples; this follows the converter's tested intent (namedtuple/tuple arguments are traversed) and NOT dask.core.keys_in_tasks, "
    "which still treats them as opaque",
    "a dict is interpreted only as a direct argument of a call; there its values are evaluated elementwise as legacy terms (property text) -- the legacy_dict "
    "obligations assert exactly this and carry the derived model variable dict_value_term (1 iff some dict value references a key or contains a call)",
    "functions in tasks are pure tuple builders; literal() wrappers produced by quote are called like any other callable",
]
STUBS = ["the name `int` in dask._task_spec is bound to symx ShimInt during symbolic runs so that isinstance(x, (int, float, str, tuple)) accepts a symbolic int"]
ENUM = ["term shape (construct kind, width, which child is deep), leaf kind, requested keys, cache variant",
        "every int leaf and every ('t', w) leaf of a legacy term is hashed by the converter (`task in all_keys`) and therefore concretised: ranges are "
        "[-1, 1] (quick) or [-1, 2] / [0, 1]; ints in quoted values, dict arguments and task-object arguments are not hashed and stay symbolic (except inside Set)"]
OUTSIDE = ["dicts and sets in other positions of a legacy graph (top-level dict values become literal DataNodes; legacy set/frozenset arguments)",
           "namedtuples, SubgraphCallable, futures with __dask_future__, Task.fuse / substitute (C09), tokenisation/equality of nodes, async functions",
           "raw Python containers holding task objects passed as Task arguments (documented as not traversed)", "graphs with cycles or self references",
           "terms deeper than 2 / wider than 2 (thorough: depth 2 with both children deep; quick: one deep child per level)"]
BOUNDS = {
    "quick": dict(
        term="fixed keys 0, 1, ('t',1), 's' + generated key 'y'. depth 1: width<=2, every leaf kind (symbolic int in [-1,1], 's', 'z', ('t', w) w in [0,1], 1.0, "
             "quote([v]) / quote((h, key, v)) / quote({'p': v}) with v symbolic, quote(key)), dict argument with <=1 entry; same with key 1 supplied through cache=. "
             "depth 2: width<=2, one deep child per level, leaves symbolic int in [-1,0] and ('t', w), shallow sibling a symbolic int, dict arguments with <=1 entry",
        chain="keys 0 -> ('t',1) -> 's' all generated: 'z' or (f,) ; depth-1 width-1 call/list ; depth-1 width-2 call/list/tuple over symbolic ints in [-1,0] and ('t', w)",
        objects="fixed task-object nodes 0, 1, ('t',1), 's' + generated 'y': depth 1 width<=2 over literal (symbolic int in [-1,1], never hashed except in Set), 's', TaskRef/Alias of 0 or ('t',1), "
                "DataNode, Task with args / with a kwarg, List, Tuple, Set, Dict (3 constructor forms); depth 2 with one deep child per level and reduced leaves"),
    "thorough": dict(
        term="depth 1 with int leaves in [-1,2], dict arguments with <=2 entries and 6 value kinds, cache variant as a flag; depth 2 width<=2 with EVERY child deep, "
             "all leaf kinds at levels 0-1",
        chain="first key: symbolic int / 'z' / (f,); second: depth-1 width-1; third: depth-1 width-2; leaves int, ('t', w), 'z', dict arguments",
        objects="depth 1 with TaskRef/Alias over all four keys; depth 2 with every child deep, Dict forms at the top level"),
}


def functions():
    return [TS.convert_legacy_task, TS.convert_legacy_graph, TS.Task.__init__, TS.Task.__call__, TS.Task.__getstate__, TS.Task.__setstate__,
            TS.Alias.__init__, TS.Alias.__call__, TS.Alias.__reduce__, TS.DataNode.__init__, TS.DataNode.__reduce__, TS.NestedContainer.__init__,
            TS.NestedContainer.__getstate__, TS.NestedContainer.__setstate__, TS.Dict.__init__, TS.DependenciesMapping.__getitem__,
            TS.execute_graph, TS.resolve_aliases, TS._identity_cast, C.get, C.quote]


# ---------------------------------------------------------------------------------------------------------------
# functions used in graphs: tuple builders (module level so that nodes pickle by reference)


def f(*a):
    return ("f",) + a


def g(*a):
    return ("g",) + a


def h(*a):
    return ("h",) + a


def fk(*a, **kw):
    return ("fk", a, tuple(sorted(kw.items())))


FN = [f, g, h]

# ---------------------------------------------------------------------------------------------------------------
# oracle 1: the documented legacy semantics, evaluated on the legacy dict itself


def _isnum(x):
    return isinstance(x, (int, float, SInt))


def same(a, b):
    """Python equality between a value and a key, decided structurally (no hashing: symbolic ints are decided by the solver)"""
    if isinstance(a, tuple) or isinstance(b, tuple):
        if not (isinstance(a, tuple) and isinstance(b, tuple) and len(a) == len(b)):
            return False
        for x, y in zip(a, b):
            if not same(x, y):
                return False
        return True
    if isinstance(a, str) or isinstance(b, str):
        return isinstance(a, str) and isinstance(b, str) and a == b
    if _isnum(a) and _isnum(b):
        return bool(a == b)
    return False


def is_call(t):
    return type(t) is tuple and len(t) > 0 and callable(t[0])


def key_denoted(t, keys):
    if isinstance(t, (str, tuple)) or _isnum(t):
        for k in keys:
            if same(t, k):
                return k
    return None


def ref_eval(t, env, keys):
    if isinstance(t, TaskRef):
        return env[t.key]
    if isinstance(t, Alias):
        return env[t.target]
    if is_call(t):
        return t[0](*[ref_arg(a, env, keys) for a in t[1:]])
    k = key_denoted(t, keys)
    if k is not None:
        return env[k]
    if type(t) in (list, tuple):
        return type(t)(ref_eval(x, env, keys) for x in t)
    return t


def ref_arg(a, env, keys):
    if type(a) is dict:      # dict argument: evaluated elementwise (property text), keys of the dict are kept
        return {k: ref_eval(v, env, keys) for k, v in a.items()}
    return ref_eval(a, env, keys)


def ref_deps(t, keys, out):
    if isinstance(t, TaskRef):
        out.add(t.key)
    elif isinstance(t, Alias):
        out.add(t.target)
    elif is_call(t):
        for a in t[1:]:
            if type(a) is dict:
                for v in a.values():
                    ref_deps(v, keys, out)
            else:
                ref_deps(a, keys, out)
    else:
        k = key_denoted(t, keys)
        if k is not None:
            out.add(k)
        elif type(t) in (list, tuple):
            for x in t:
                ref_deps(x, keys, out)
    return out


def plain(x):
    """concrete form of a key / dependency (symbolic ints inside are already decided on this path)"""
    if isinstance(x, SInt):
        return x.__index__()
    if isinstance(x, tuple):
        return tuple(plain(y) for y in x)
    if isinstance(x, bool):
        return int(x)
    if isinstance(x, float) and x == int(x):
        return int(x)
    return x


def plainset(s):
    return {plain(x) for x in s}


def show(x):
    """observation form: callables by name"""
    if isinstance(x, (list, tuple)):
        return type(x)(show(y) for y in x)
    if isinstance(x, dict):
        return {k: show(v) for k, v in x.items()}
    if isinstance(x, (set, frozenset)):
        return {show(y) for y in x}       # canonical order is established by the engine after concretisation
    if callable(x):
        return getattr(x, "__name__", type(x).__name__)
    return x


# ---------------------------------------------------------------------------------------------------------------
# generator of legacy terms

T1 = ("t", 1)


def gen_term(e, nm, depth, cfg, allowed, allkeys, arg=False, level=0, only=None, sib=False):
    """a legacy term; `allowed` are the keys it may reference (earlier keys), `allkeys` every key of the graph;
    `only` restricts the construct kinds at this level (obligations are split by the top-level construct); `sib`: the term is the
    shallow sibling of a deep child (cfg['sib'] leaf kinds)"""
    lk = cfg["sib"] if (sib and "sib" in cfg) else cfg["leaves"][min(level, len(cfg["leaves"]) - 1)]
    kinds = []
    for k in lk:
        if k == "skey" and "s" not in allowed:
            continue
        if k == "tkey" and not (T1 in allowed or 0 in allowed):
            continue
        if k == "one" and 1 not in allowed:
            continue
        kinds.append(k)
    if arg and cfg.get("dwidth", 0) and not sib:
        kinds.append("dict")
    if depth > 0:
        kinds += list(cfg["comps"])
    if only is not None:
        kinds = [k for k in kinds if k in only]
    kind = e.pick(nm + ":k", kinds)
    lo, hi = cfg["irange"]

    def sym(name, lo=lo, hi=hi, free=False):
        v = e.int(name, lo, hi)
        if not free:
            for k in allkeys:
                if type(k) is int and k not in allowed and lo <= k <= hi:
                    e.assume(lambda k=k: v != k)
        return v

    if kind == "int":
        return sym(nm + ":v")
    if kind == "skey":
        return "s"
    if kind == "slit":
        return "z"
    if kind == "one":
        return 1.0
    if kind == "tkey":
        # equals the tuple key iff w == 1; ('t', 0) is a plain tuple whose second element is the key 0
        wlo = 0 if 0 in allowed else 1
        whi = 1 if T1 in allowed else 0
        return ("t", e.int(nm + ":w", wlo, whi))
    if kind == "q_list":
        return C.quote([sym(nm + ":q", free=True)])           # never compared with keys: stays symbolic
    if kind == "q_call":
        return C.quote((h, allowed[0] if allowed else 5, sym(nm + ":q", free=True)))
    if kind == "q_dict":
        return C.quote({"p": sym(nm + ":q", free=True)})
    if kind == "q_key":
        return C.quote(allowed[-1] if allowed else "z")          # quote() does not protect key-like values
    if kind == "dict":
        n = e.choice(nm + ":n", cfg["dwidth"] + 1)
        d = {}
        opts = [("lit",)]
        if allowed:
            opts += [("ref", allowed[-1]), ("alias", allowed[0])]
        if cfg.get("dmore"):
            opts += [("zlit",)] + ([("ref", allowed[0]), ("alias", allowed[len(allowed) // 2])] if allowed else [])
        for i in range(n):
            o = e.pick(f"{nm}.{i}:dk", opts)
            name = "pq"[i]
            if o[0] == "lit":
                d[name] = e.int(f"{nm}.{i}:dv", 5, 6)            # not key-like; not hashed by the converter: symbolic
            elif o[0] == "zlit":
                d[name] = "z"
            elif o[0] == "ref":
                d[name] = TaskRef(o[1])
            else:
                d[name] = Alias(o[1])
        return d
    n = e.choice(nm + ":n", cfg["width"] + 1)
    deep = None
    if cfg.get("one_deep", True) and n > 1 and depth > 1:
        deep = e.choice(nm + ":d", n)
    kids = [gen_term(e, f"{nm}.{i}", depth - 1 if (deep is None or deep == i) else 0, cfg, allowed, allkeys, arg=(kind == "call"), level=level + 1,
                     sib=(deep is not None and deep != i))
            for i in range(n)]
    if kind == "call":
        return (FN[min(level, 2)],) + tuple(kids)
    if kind == "list":
        return kids
    if kind == "tuple":
        return tuple(kids)
    raise AssertionError(kind)


# ---------------------------------------------------------------------------------------------------------------
# the assertions on one legacy graph


def check_legacy(e, dsk, cache_in, outs):
    """dsk: legacy graph whose insertion order is topological; cache_in: precomputed keys; outs: requested-key specs"""
    cache_in = dict(cache_in or {})
    keys = list(dsk) + list(cache_in)
    env = dict(cache_in)
    want_deps = {}
    for k in dsk:
        env[k] = ref_eval(dsk[k], env, keys)
        want_deps[k] = ref_deps(dsk[k], keys, set())
    conv = TS.convert_legacy_graph(dsk, all_keys=set(dsk) | set(cache_in)) if cache_in else TS.convert_legacy_graph(dsk)
    e.check(set(conv) == set(dsk), f"conversion changed the key set: {sorted(map(repr, conv))}")
    dm = TS.DependenciesMapping(conv)
    obs_deps = []
    for k in dsk:
        node = conv[k]
        e.check(isinstance(node, GraphNode), f"converted value of {k!r} is not a GraphNode")
        # module docstring: "Every GraphNode instance has a key attribute that should reference the key in the dask graph";
        # execute_graph given the nodes as a list relies on it (checked behaviourally in e2e)
        e.check(plain(node.key) == k, f"converted node stored under {k!r} carries the key {node.key!r}")
        got = plainset(node.dependencies)
        e.check(got == want_deps[k], f"dependencies of {k!r}: reported {sorted(map(repr, got))}, referenced {sorted(map(repr, want_deps[k]))}")
        e.check(plainset(dm[k]) == want_deps[k], f"DependenciesMapping of {k!r} differs from the referenced keys")
        val = node({d: env[d] for d in want_deps[k]})
        e.check(lambda: e.equal(val, env[k]), f"node {k!r} computes a different value than the legacy semantics")
        obs_deps.append(sorted(map(repr, got)))
    obs_vals = []
    for out in outs:
        res = C.get(dsk, out, cache=dict(cache_in)) if cache_in else C.get(dsk, out)
        want = _pack(env, out)
        e.check(lambda: e.equal(res, want), f"dask.core.get(dsk, {out!r}) differs from the legacy semantics")
        obs_vals.append(show(res))
    return conv, env, (obs_vals, obs_deps)


def _pack(env, out):
    if isinstance(out, list):
        return tuple(_pack(env, o) for o in out)
    return env[out]


def check_resolve(e, conv, env, req, cache_in=None):
    deps = TS.DependenciesMapping(conv)
    dependents = C.reverse_dict(deps)
    res = TS.resolve_aliases(conv, set(req), dependents)
    vals = TS.execute_graph(res, dict(cache_in or {}), keys=set(req))
    for k in req:
        e.check(k in vals, f"after resolve_aliases the requested key {k!r} is not computed")
        e.check(lambda: e.equal(vals[k], env[k]), f"after resolve_aliases key {k!r} has a different value")


def pickle_checks(conv, env, cache_in=None, as_list=False):
    """native: pickling a node preserves its dependencies and the value it computes"""
    for k, node in conv.items():
        try:
            n2 = pickle.loads(pickle.dumps(node))
        except Exception as ex:
            raise Violation(f"node {k!r} ({node!r}) does not survive pickling: {type(ex).__name__}: {ex}")
        if type(n2) is not type(node):
            raise Violation(f"pickle round trip of {k!r} changed the node type to {type(n2).__name__}")
        if n2.dependencies != node.dependencies:
            raise Violation(f"pickle round trip of {k!r} changed dependencies {set(node.dependencies)} -> {set(n2.dependencies)}")
        vals = {d: env[d] for d in node.dependencies}
        a, b = node(vals), n2(vals)
        if a != b or _types(a) != _types(b) or a != env[k]:
            raise Violation(f"pickle round trip of {k!r} changed the computed value {a!r} -> {b!r}")
    g2 = pickle.loads(pickle.dumps(conv))
    res = TS.execute_graph(g2, dict(cache_in or {}), keys=set(conv))
    for k in conv:
        if res[k] != env[k] or _types(res[k]) != _types(env[k]):
            raise Violation(f"the pickled graph computes {res[k]!r} for {k!r}, expected {env[k]!r}")
    if as_list:
        res = TS.execute_graph(list(conv.values()), dict(cache_in or {}), keys=set(conv))
        for k in conv:
            if k not in res or res[k] != env[k]:
                raise Violation(f"execute_graph on the list of converted nodes computes {res.get(k)!r} for {k!r}, expected {env[k]!r}")


def _types(x):
    if isinstance(x, (list, tuple)):
        return (type(x).__name__, [_types(y) for y in x])
    if isinstance(x, dict):
        return ("dict", sorted((repr(k), _types(v)) for k, v in x.items()))
    if isinstance(x, (set, frozenset)):
        return type(x).__name__
    return ""


def _patches():
    return patched((TS, "int", INT_SHIM))


def _legacy_e2e(build):
    def e2e(model):
        dsk, cache_in = build(NativeEngine(model))
        cache_in = dict(cache_in or {})
        keys = list(dsk) + list(cache_in)
        env = dict(cache_in)
        for k in dsk:
            env[k] = ref_eval(dsk[k], env, keys)
        conv = TS.convert_legacy_graph(dsk, all_keys=set(keys))
        pickle_checks(conv, env, cache_in, as_list=True)
        if cache_in:
            return        # the schedulers' public get has no way to name precomputed keys other than cache=, covered by core.get
        allk = list(dsk)
        for name, get in (("dask.get", dask.get), ("dask.threaded.get", dask.threaded.get)):
            res = get(dsk, allk)
            want = tuple(env[k] for k in allk)
            if tuple(res) != want or _types(tuple(res)) != _types(want):
                raise Violation(f"{name}(dsk, {allk!r}) = {res!r}, legacy semantics gives {want!r}; dsk={dsk!r}")
            one = get(dsk, allk[-1])
            if one != want[-1]:
                raise Violation(f"{name}(dsk, {allk[-1]!r}) = {one!r}, legacy semantics gives {want[-1]!r}; dsk={dsk!r}")
    return e2e


# -- family A: one generated term in a fixed graph -------------------------------------------------------------------

BASE = {0: 70, 1: (h, 71), T1: [72, 73], "s": (h, 0)}
BASEKEYS = [0, 1, T1, "s"]


def mk_term(tag, depth, cfg, only, every=3):
    def build(e):
        incache = True if cfg.get("cache") == "always" else (e.flag("cache1") if cfg.get("cache") else False)
        term = gen_term(e, "y", depth, cfg, BASEKEYS, BASEKEYS + ["y"], only=only)
        dsk = dict(BASE)
        dsk["y"] = term
        cache_in = None
        if incache:
            del dsk[1]
            cache_in = {1: ("h", 71)}
        return dsk, cache_in

    def run(e, dsk, cache_in):
        conv, env, obs = check_legacy(e, dsk, cache_in, ["y", list(dsk)])
        check_resolve(e, conv, env, ["y"], cache_in)
        return obs

    return Obligation(f"term[{tag}]", build, run, patches=_patches, e2e=_legacy_e2e(build), e2e_every=every)


# -- family A': dict arguments whose values are legacy terms (literal reading of "dicts are evaluated elementwise") ----------

DV_KINDS = ("lit", "zlit", "int", "skey", "tkey", "call", "list", "litlist")


def mk_legacy_dict(tag, width, irange, every=3):
    def dict_value(e, nm):
        kind = e.pick(nm + ":k", DV_KINDS)
        if kind == "lit":
            return e.int(nm + ":v", 5, 6)
        if kind == "zlit":
            return "z"
        if kind == "int":
            return e.int(nm + ":v", *irange)                     # key-like iff it equals 0 or 1 (decided by the solver: dask never hashes it)
        if kind == "skey":
            return "s"
        if kind == "tkey":
            return ("t", e.int(nm + ":w", 0, 1))
        if kind == "call":
            return (h, e.pick(nm + ":r", [0, T1]))
        if kind == "list":
            return [e.pick(nm + ":r", [1, "s"]), e.int(nm + ":v", 5, 6)]
        return [e.int(nm + ":v", 5, 6)]

    def needs_eval(t, keys):
        if is_call(t):
            return True
        if key_denoted(t, keys) is not None:
            return True
        if type(t) in (list, tuple):
            return any(needs_eval(x, keys) for x in t)
        return False

    def build(e):
        inner = e.flag("inner")
        n = e.choice("d:n", width + 1)
        d = {"pq"[i]: dict_value(e, f"d.{i}") for i in range(n)}
        needs = any(needs_eval(v, BASEKEYS) for v in d.values())
        flag = e.int("dict_value_term", 0, 1)
        want = 1 if needs else 0
        e.assume(lambda: flag == want)
        dsk = dict(BASE)
        dsk["y"] = (f, (g, d), 9) if inner else (f, d)
        return dsk, None

    def run(e, dsk, cache_in):
        conv, env, obs = check_legacy(e, dsk, None, ["y", list(dsk)])
        check_resolve(e, conv, env, ["y"])
        return obs

    return Obligation(f"legacy_dict[{tag}]", build, run, patches=_patches, e2e=_legacy_e2e(build), e2e_every=every)


# -- family B: chains of generated keys 0 -> ('t', 1) -> 's' ------------------------------------------------------------


def mk_chain(tag, cfgs, every=3):
    """cfgs: per key (depth, cfg) for the keys 0, ('t', 1), 's' in this (topological) order"""
    ckeys = [0, T1, "s"]

    def build(e):
        dsk = {}
        for i, k in enumerate(ckeys):
            depth, cfg = cfgs[i]
            dsk[k] = gen_term(e, f"k{i}", depth, cfg, ckeys[:i], ckeys)
        return dsk, None

    def run(e, dsk, cache_in):
        conv, env, obs = check_legacy(e, dsk, None, ["s", list(dsk)])
        check_resolve(e, conv, env, ["s"])
        check_resolve(e, conv, env, ["s", 0])
        return obs

    return Obligation(f"chain[{tag}]", build, run, patches=_patches, e2e=_legacy_e2e(build), e2e_every=every)


# -- family C: task-object graphs built directly ------------------------------------------------------------------------
# oracle 2: an AST with its own evaluator; build() maps the AST to dask task objects


def gen_ast(e, nm, depth, cfg, level=0, hashable=False, only=None, sib=False, kw=False):
    """cfg['kinds'][level]: construct kinds offered at that level; cfg['refs'][level]: keys TaskRef/Alias may name there"""
    lv = min(level, len(cfg["kinds"]) - 1)
    offered = cfg["sib"] if (sib and "sib" in cfg) else (cfg["kw"] if (kw and "kw" in cfg) else cfg["kinds"][lv])
    kinds = [k for k in ("lit", "str", "ref", "alias", "data") if k in offered]
    if depth > 0:
        kinds += [k for k in ("call", "callkw", "Tuple") if k in offered]
        if not hashable:
            kinds += [k for k in ("List", "Set", "Dict") if k in offered]
    if only is not None:
        kinds = [k for k in kinds if k in only]
    kind = e.pick(nm + ":k", kinds)
    lo, hi = cfg["irange"]
    if kind == "lit":
        return ("lit", e.int(nm + ":v", lo, hi))          # equal to a key or not: a task-object argument is never a reference
    if kind == "str":
        return ("lit", "s")
    if kind in ("ref", "alias"):
        return (kind, e.pick(nm + ":r", cfg["refs"][min(level, len(cfg["refs"]) - 1)]))
    if kind == "data":
        return ("data", e.int(nm + ":v", lo, hi))
    n = e.choice(nm + ":n", cfg["width"] + 1)
    deep = None
    if cfg.get("one_deep", True) and n > 1 and depth > 1:
        deep = e.choice(nm + ":d", n)
    hz = hashable or kind == "Set"
    kids = [gen_ast(e, f"{nm}.{i}", depth - 1 if (deep is None or deep == i) else 0, cfg, level + 1, hz, sib=(deep is not None and deep != i))
            for i in range(n)]
    if kind == "call":
        return ("call", FN[min(level, 2)], kids)
    if kind == "callkw":
        kwa = gen_ast(e, f"{nm}.kw", 0, cfg, level + 1, hz, kw=True)
        return ("callkw", kids, kwa)
    if kind == "Dict":
        return ("Dict", e.choice(nm + ":form", 3) if level < cfg.get("forms_to_level", 1) else level % 3, kids)
    return (kind, kids)


def ast_build(a, key=None):
    k = a[0]
    if k == "lit":
        return a[1] if key is None else DataNode(key, a[1])
    if k == "ref":
        return TaskRef(a[1]) if key is None else Alias(key, target=TaskRef(a[1]))
    if k == "alias":
        return Alias(a[1]) if key is None else Alias(key, target=a[1])
    if k == "data":
        return DataNode(key, a[1])
    if k == "call":
        return Task(key, a[1], *[ast_build(x) for x in a[2]])
    if k == "callkw":
        return Task(key, fk, *[ast_build(x) for x in a[1]], kw=ast_build(a[2]))
    kids = [ast_build(x) for x in a[-1]]
    if k == "List":
        return List(*kids)
    if k == "Tuple":
        return Tuple(*kids)
    if k == "Set":
        return Set(*kids)
    if k == "Dict":
        names = "pq"
        if a[1] == 0:
            return Dict({names[i]: v for i, v in enumerate(kids)})
        if a[1] == 1:
            return Dict(**{names[i]: v for i, v in enumerate(kids)})
        return Dict([(names[i], v) for i, v in enumerate(kids)])
    raise AssertionError(k)


def ast_eval(a, env):
    k = a[0]
    if k in ("lit", "data"):
        return a[1]
    if k in ("ref", "alias"):
        return env[a[1]]
    if k == "call":
        return a[1](*[ast_eval(x, env) for x in a[2]])
    if k == "callkw":
        return fk(*[ast_eval(x, env) for x in a[1]], kw=ast_eval(a[2], env))
    vals = [ast_eval(x, env) for x in a[-1]]
    if k == "List":
        return vals
    if k == "Tuple":
        return tuple(vals)
    if k == "Set":
        return set(vals)
    return {"pq"[i]: v for i, v in enumerate(vals)}


def ast_deps(a, out):
    k = a[0]
    if k in ("ref", "alias"):
        out.add(a[1])
    elif k == "call":
        for x in a[2]:
            ast_deps(x, out)
    elif k == "callkw":
        for x in a[1]:
            ast_deps(x, out)
        ast_deps(a[2], out)
    elif k not in ("lit", "data"):
        for x in a[-1]:
            ast_deps(x, out)
    return out


OBJ_BASE = [(0, ("data", 70)), (1, ("call", h, [("lit", 71)])), (T1, ("call", h, [("ref", 0), ("lit", 72)])), ("s", ("alias", 1))]


def mk_objects(tag, depth, cfg, only, every=3):
    def build(e):
        return (gen_ast(e, "y", depth, cfg, only=only),)

    def graph(top):
        asts = dict(OBJ_BASE)
        asts["y"] = top
        env, deps = {}, {}
        for k, a in asts.items():
            env[k] = ast_eval(a, env)
            deps[k] = ast_deps(a, set())
        dsk = {k: ast_build(a, key=k) for k, a in asts.items()}
        return dsk, env, deps

    def run(e, top):
        dsk, env, deps = graph(top)
        node = dsk["y"]
        e.check(isinstance(node, GraphNode), "not a GraphNode")
        got = plainset(node.dependencies)
        e.check(got == deps["y"], f"dependencies reported {sorted(map(repr, got))}, referenced {sorted(map(repr, deps['y']))}")
        e.check(plainset(TS.DependenciesMapping(dsk)["y"]) == deps["y"], "DependenciesMapping differs from the referenced keys")
        val = node({d: env[d] for d in deps["y"]})
        e.check(lambda: e.equal(val, env["y"]), "node computes a different value than its meaning")
        conv = TS.convert_legacy_graph(dsk)
        e.check(all(conv[k] is dsk[k] for k in dsk) and len(conv) == len(dsk), "conversion does not keep task objects as they are")
        res = TS.execute_graph(dict(dsk), keys={"y"})
        e.check(lambda: e.equal(res["y"], env["y"]), "execute_graph differs")
        allk = list(dsk)
        r2 = C.get(dsk, allk)
        e.check(lambda: e.equal(r2, tuple(env[k] for k in allk)), "dask.core.get on the task-object graph differs")
        r1 = C.get(dsk, "y")
        e.check(lambda: e.equal(r1, env["y"]), "dask.core.get(dsk, 'y') differs")
        return show(r1), sorted(map(repr, got))

    def e2e(model):
        (top,) = build(NativeEngine(model))
        dsk, env, deps = graph(top)
        pickle_checks(dsk, env)
        for name, get in (("dask.get", dask.get), ("dask.threaded.get", dask.threaded.get)):
            got = get(dsk, "y")
            if got != env["y"] or _types(got) != _types(env["y"]):
                raise Violation(f"{name} on the task-object graph gives {got!r}, expected {env['y']!r}; y={dsk['y']!r}")

    return Obligation(f"objects[{tag}]", build, run, patches=_patches, e2e=e2e, e2e_every=every)


# ---------------------------------------------------------------------------------------------------------------

COMPS = ("call", "list", "tuple")
L_FULL = ("int", "skey", "slit", "tkey", "q_list", "q_call", "q_key")
L_MORE = L_FULL + ("one", "q_dict")
L_SMALL = ("int", "tkey")
O_LEAF = ("lit", "str", "ref", "alias", "data")
O_COMP = ("call", "callkw", "List", "Tuple", "Set", "Dict")


def obligations(tier):
    obs = []
    if tier == "quick":
        c1 = dict(leaves=[L_MORE], comps=COMPS, width=2, irange=(-1, 1), dwidth=1)
        obs.append(mk_term("d1,w2,all leaf kinds", 1, c1, None))
        cc = dict(leaves=[("int", "one", "tkey")], comps=COMPS, width=2, irange=(0, 1), dwidth=1, cache="always")
        obs.append(mk_term("d1,w2,key 1 supplied in cache", 1, cc, None))
        c2 = dict(leaves=[L_SMALL], sib=("int",), comps=COMPS, width=2, irange=(-1, 0), one_deep=True, dwidth=1)
        for top in COMPS:
            obs.append(mk_term(f"d2,w2,one deep,top={top}", 2, c2, (top,), every=5))
        obs.append(mk_legacy_dict("w2,values int[-1,1]", 2, (-1, 1)))
        cb0 = dict(leaves=[("slit",)], comps=("call",), width=0, irange=(-1, 1))
        cb1 = dict(leaves=[("int",)], comps=("call", "list"), width=1, irange=(-1, 0))
        cb2 = dict(leaves=[("int", "tkey")], comps=COMPS, width=2, irange=(-1, 0))
        obs.append(mk_chain("3 keys,d1", [(1, cb0), (1, cb1), (1, cb2)], every=5))
        co = dict(kinds=[O_LEAF + O_COMP, O_LEAF], kw=("lit", "ref"), refs=[(0, T1)], width=2, irange=(-1, 1))
        obs.append(mk_objects("d1,w2", 1, co, None))
        co2 = dict(kinds=[O_COMP, ("lit", "ref") + O_COMP, ("lit", "ref")], sib=("lit",), kw=("ref",), refs=[(0, T1), (T1,), (0,)], width=2, irange=(-1, 1),
                   one_deep=True, forms_to_level=0)
        for top in O_COMP:
            obs.append(mk_objects(f"d2,w2,one deep,top={top}", 2, co2, (top,), every=5))
    else:
        c1 = dict(leaves=[L_MORE], comps=COMPS, width=2, irange=(-1, 2), dwidth=2, dmore=True, cache=True)
        obs.append(mk_term("d1,w2,all leaf kinds,range 2,cache variant", 1, c1, None))
        c2 = dict(leaves=[L_FULL, L_FULL, L_SMALL], comps=COMPS, width=2, irange=(-1, 0), one_deep=False, dwidth=1)
        for top in COMPS:
            obs.append(mk_term(f"d2,w2,all deep,top={top}", 2, c2, (top,), every=11))
        obs.append(mk_legacy_dict("w2,values int[-1,2]", 2, (-1, 2)))
        cb0 = dict(leaves=[("int", "slit")], comps=("call",), width=0, irange=(-1, 1))
        cb1 = dict(leaves=[("int", "tkey", "slit")], comps=COMPS, width=1, irange=(-1, 0), dwidth=1)
        cb2 = dict(leaves=[("int", "tkey", "slit")], comps=COMPS, width=2, irange=(-1, 0), dwidth=1)
        obs.append(mk_chain("3 keys,d1,w2", [(1, cb0), (1, cb1), (1, cb2)], every=11))
        co = dict(kinds=[O_LEAF + O_COMP, O_LEAF], refs=[BASEKEYS], width=2, irange=(-1, 1))
        obs.append(mk_objects("d1,w2,all keys", 1, co, None))
        co2 = dict(kinds=[O_COMP, ("lit", "ref", "alias") + O_COMP, ("lit", "ref")], kw=("ref", "lit"), refs=[(0, T1), (T1,), (0,)], width=2, irange=(-1, 1),
                   one_deep=False, forms_to_level=1)
        for top in O_COMP:
            obs.append(mk_objects(f"d2,w2,all deep,top={top}", 2, co2, (top,), every=11))
    return obs
