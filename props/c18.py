"""C18 -- size and duration helpers round-trip and meet their documented bounds"""
from __future__ import annotations

import itertools

import z3

from symx import core
from symx.core import SInt, SBool, Violation, HarnessError, _pyfloordiv
from symx.run import Obligation
from symx import ch

import dask.utils as U

PROPERTY = "C18"
LEVEL = "other"
BUDGET = {"quick": 150, "thorough": 900}
EXPLANATION = (
    "(a) format_bytes width: the real format_bytes runs on ONE symbolic integer n covering all of [0, 2**60). Band selection compares n "
    "with the concrete floats k*0.9 exactly (int-vs-float comparison is exact in Python, encoded as an integer bound). `n / k` (k a "
    "power of two) returns an exact proxy: float(n) is modelled in integers as round-half-even to 53 significant bits (an ite over the "
    "binades 2**53..2**60), division by a power of two is exact, and format(..., '.2f') rounds the exact binary value half-even to "
    "hundredths (CPython's float formatting is correctly rounded); the proxy forks on the digit count and returns a length-faithful "
    "placeholder, and the harness asserts len(result) <= 10. Every path model, a second model per path, and the z3-computed first "
    "violating n and its predecessor are replayed on the unmodified function. (b) round trip parse_bytes(format_bytes(n)) within the "
    "printed precision: checked natively on the witnesses of every path class of (a) (boundary sampling per solver class, not an "
    "all-values claim). (c) unit tables: every byte_sizes / timedelta_sizes spelling x every letter-case mask x a symbolic integer "
    "mantissa (concretised at str()): result == mantissa * documented multiplier. (d) totality of parse_bytes (only ValueError, int result), "
    "key_split and natural_sort_key (documented shapes) on EVERY string of length <= 3-4 over a 20-character alphabet, solver-enumerated; "
    "CrossHair additionally hunts for counterexamples over free strings within a time box (not counted as an obligation).")
ASSUMPTIONS = [
    "integer model of float(n) for 0 <= n < 2**63 (round-half-even to 53 bits) and of '.2f' formatting (correctly rounded, ties to even): "
    "validated natively on every path model and on the decisive boundary computed by z3",
    "the placeholder string returned by the proxy's __format__ has the right length but placeholder digits: the harness of (a) only reads its length",
    "CrossHair conditions that do not come back 'Confirmed over all paths' are bug-hunts within the time box, reported as inconclusive",
]
STUBS = ["str()/format() of the symbolic n returns a placeholder with the right number of digits (forks on the digit count, not on the value)", "SInt subclass whose / by a power of two returns the exact float(n)/k proxy with a symbolic '.2f' __format__"]
ENUM = ["unit spelling, letter-case mask, mantissa (via str())", "the characters of strings[...] (20-character alphabet)"]
OUTSIDE = ["n >= 2**60", "format_time", "fractional mantissas in parse_bytes/parse_timedelta (float parsing)"]
BOUNDS = {"quick": dict(format_bytes="all n in [0, 2**60)", units="all spellings; all case masks up to 3 letters, 4 masks for longer names; mantissa in [0, 12]", crosshair="len(s) <= 4-5, 25 s per condition"),
          "thorough": dict(format_bytes="all n in [0, 2**60)", units="all spellings; all case masks up to 3 letters, 4 masks for longer names; mantissa in [0, 40]", crosshair="len(s) <= 4-5, 240 s per condition")}


def functions():
    return [U.format_bytes, U.parse_bytes, U.parse_timedelta, U.key_split.__wrapped__, U.natural_sort_key]


# -- exact integer model of float(n) and of '.2f' ------------------------------------

def fl53(n):
    """z3 term: the integer value of float(n) for 0 <= n < 2**63 (round-half-even to 53 significant bits)"""
    r = n
    for b in range(62, 52, -1):
        u = 2 ** (b - 52)
        q, m = n / u, n % u
        up = z3.Or(2 * m > u, z3.And(2 * m == u, q % 2 == 1))
        r = z3.If(z3.And(n >= 2 ** b, n < 2 ** (b + 1)), z3.If(up, (q + 1) * u, q * u), r)
    return z3.If(n < 2 ** 53, n, r)


def hundredths(n, k):
    """z3 term: round_half_even(100 * float(n) / k), k a positive power of two"""
    num = 100 * fl53(n)
    q, m = num / k, num % k
    up = z3.Or(2 * m > k, z3.And(2 * m == k, q % 2 == 1))
    return z3.If(up, q + 1, q)


class Placeholder(str):
    """length-faithful stand-in for the printed number"""


class FBQuot:
    def __init__(self, n, k):
        self.n, self.k = n, k

    def __format__(self, spec):
        if spec != ".2f":
            raise HarnessError(f"format spec {spec!r} not modelled")
        h = SInt(hundredths(self.n, self.k))
        digits = 1
        while h >= 10 ** (digits + 2):      # forks: one class per digit count
            digits += 1
            if digits > 30:
                raise HarnessError("digit count runaway")
        return Placeholder("9" * digits + ".99")


class SIntFB(SInt):
    __slots__ = ()

    def __truediv__(self, o):
        if isinstance(o, int) and o > 0 and (o & (o - 1)) == 0:
            return FBQuot(self.z, o)
        return SInt.__truediv__(self, o)


def mk_format_bytes():
    def setup(e):
        e.opaque_str = "len"      # f"{n} B": a placeholder with the right number of digits (the harness reads only the length)
        n = e.int("n", 0, 2 ** 60 - 1)
        return (n,)

    def run(e, n):
        if isinstance(n, SInt):
            n = SIntFB(n.z)
        s = U.format_bytes(n)
        e.check(len(s) <= 10, f"format_bytes output is {len(s)} characters long (documented: <= 10 below 2**60)")
        if e.mode == "native":
            # (b) round trip on this witness, natively
            back = U.parse_bytes(s)
            unit = s.split(" ")[1]
            k = U.byte_sizes[unit.lower()]
            # half a unit of the last printed digit, plus the rounding of the printed decimal to a double in parse_bytes (relative 2**-52)
            tol = 0 if unit == "B" else 0.005 * k + 1 + n * 2.0 ** -50
            if abs(back - n) > tol:
                raise Violation(f"parse_bytes(format_bytes({n})) = {back}: off by more than the printed precision ({tol})")
        return len(s)

    return Obligation("format_bytes_width", setup, run)


def case_masks(u):
    """every letter-case mask for spellings of up to 3 letters; lower / UPPER / Title / aLtErNaTe for longer ones"""
    letters = [i for i, c in enumerate(u) if c.isalpha()]
    if len(letters) > 3:
        yield u.lower()
        yield u.upper()
        yield u.title()
        yield "".join(c.upper() if i % 2 else c.lower() for i, c in enumerate(u))
        return
    for bits in itertools.product((0, 1), repeat=len(letters)):
        s = list(u.lower())
        for i, b in zip(letters, bits):
            if b:
                s[i] = s[i].upper()
        yield "".join(s)


DOC_BYTES = {"kB": 10 ** 3, "MB": 10 ** 6, "GB": 10 ** 9, "TB": 10 ** 12, "PB": 10 ** 15, "KiB": 2 ** 10, "MiB": 2 ** 20, "GiB": 2 ** 30,
             "TiB": 2 ** 40, "PiB": 2 ** 50, "B": 1, "": 1, "k": 10 ** 3, "M": 10 ** 6, "G": 10 ** 9, "T": 10 ** 12, "P": 10 ** 15}
DOC_TIME = {"s": 1, "ms": 1e-3, "us": 1e-6, "ns": 1e-9, "m": 60, "h": 3600, "d": 86400, "w": 604800,
            "sec": 1, "second": 1, "seconds": 1, "minute": 60, "minutes": 60, "min": 60, "hour": 3600, "hours": 3600, "hr": 3600,
            "day": 86400, "days": 86400, "week": 604800, "weeks": 604800, "millisecond": 1e-3, "milliseconds": 1e-3,
            "microsecond": 1e-6, "microseconds": 1e-6, "nanosecond": 1e-9, "nanoseconds": 1e-9}


def mk_units(which, hi):
    table = DOC_BYTES if which == "bytes" else {u: m for u, m in DOC_TIME.items() if u.lower() in U.timedelta_sizes}
    spellings = sorted({c for u in table for c in case_masks(u)} | ({""} if which == "bytes" else set()))
    mult = {}
    for u in table:
        for c in case_masks(u):
            mult[c] = table[u]

    def setup(e):
        i = e.choice("unit", len(spellings))
        m = e.int("mantissa", 0, hi)
        sp = e.flag("space")
        return spellings[i], m, sp

    def run(e, unit, m, sp):
        text = f"{m}{' ' if sp else ''}{unit}"
        if which == "bytes":
            got = U.parse_bytes(text)
            want = int(m) * mult.get(unit, 1) if False else None
            e.check(got == int(str(m)) * mult[unit] if unit else got == int(str(m)), f"parse_bytes({text!r}) = {got}")
        else:
            got = U.parse_timedelta(text)
            want = int(str(m)) * mult[unit]
            e.check(abs(got - want) <= 1e-9 * max(1.0, abs(want)), f"parse_timedelta({text!r}) = {got}, documented multiplier gives {want}")
        return got

    return Obligation(f"units[{which}]", setup, run)


ALPHABET = ("0", "1", "9", ".", "e", "-", " ", "k", "K", "i", "B", "b", "m", "s", "x", "_", "(", "'", "\u00b2", "\u0663")


def mk_strings(L):
    """totality of parse_bytes / key_split / natural_sort_key on EVERY string of length <= L over a 20-character alphabet (digits, sign,
    dot, exponent, unit letters, key punctuation, a superscript two and an Arabic-Indic three): solver-enumerated characters
    (CrossHair additionally hunts over free strings, see extra())"""
    from props import ch_c18 as CH

    def setup(e):
        n = e.choice("len", L + 1)
        return ("".join(ALPHABET[e.choice(f"ch{i}", len(ALPHABET))] for i in range(n)),)

    def run(e, text):
        e.check(CH._pb_ok(text), f"parse_bytes({text!r}) raises something other than ValueError or returns a non-int")
        e.check(CH._ks_ok(text), f"key_split({text!r}) is not a str")
        e.check(CH._nsk_ok(text), f"natural_sort_key({text!r}) is not a list of str/int parts that spells the input")
        for key in ((text, 1), (text.encode(), 0), ((text, (text, 2)), 3)):
            r = U.key_split(key)
            e.check(isinstance(r, str), f"key_split({key!r}) is not a str")
        return len(text)

    return Obligation(f"strings[len<={L},alphabet={len(ALPHABET)}]", setup, run)


def obligations(tier):
    hi = 12 if tier == "quick" else 40
    return [mk_format_bytes(), mk_units("bytes", hi), mk_units("time", hi), mk_strings(3 if tier == "quick" else 4)]


def _boundary_witnesses():
    """z3 (two versions must agree): the smallest n < 2**60 whose PiB rendering needs 4 integer digits"""
    n = z3.Int("n")
    k = 2 ** 50
    s = z3.Solver()
    s.add(n >= 0, n < 2 ** 60, hundredths(n, k) >= 100000)
    lo, hi = 0, 2 ** 60 - 1
    if s.check() != z3.sat:
        return None
    # binary search for the minimum (monotone in n)
    while lo < hi:
        mid = (lo + hi) // 2
        s.push()
        s.add(n <= mid)
        r = s.check()
        s.pop()
        if r == z3.sat:
            hi = mid
        elif r == z3.unsat:
            lo = mid + 1
        else:
            return None
    return lo


def extra(tier, known, seed):
    t = 25 if tier == "quick" else 240
    ex = ch.run_contracts("props.ch_c18", ["parse_bytes_total", "key_split_total", "natural_sort_key_total"], t, known, PROPERTY, hunt_only=True)
    # decisive boundary of (a), replayed on the real function
    T = _boundary_witnesses()
    ex["obligations"] += 1
    if T is None:
        ex["inconclusive"].append("format_bytes boundary (z3 unknown)")
    else:
        ok = len(U.format_bytes(T - 1)) <= 10 and len(U.format_bytes(T)) == 11
        ex["coverage"]["format_bytes_first_11_char_n"] = T
        if ok:
            ex["discharged"] += 1
            ex["samples"].append(dict(boundary=T, below=U.format_bytes(T - 1), at=U.format_bytes(T)))
        else:
            ex["errors"].append(dict(obligation="format_bytes_boundary", msg=f"integer model of float formatting disagrees with CPython at n={T}"))
    return ex


def replay(rec):
    return ch.replay(rec)
