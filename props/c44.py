"""C44 -- repartitioning preserves rows, order and requested layout"""
from __future__ import annotations

import operator
import types

from symx.core import Violation, HarnessError
from symx.run import Obligation
from props.dfstub import dd

import pandas as pd
from dask.dataframe.dask_expr import _repartition as RP
from dask.dataframe import methods
from dask.dataframe.core import _concat, split_evenly

PROPERTY = "C44"
LEVEL = "other"
BUDGET = {"quick": 400, "thorough": 1500}
CHUNK_PATHS = 40
EXPLANATION = (
    "Bounded symbolic execution of the real RepartitionDivisions._layer (called on a duck-typed expression) with the old and "
    "new division vectors as sorted tuples of symbolic integers (no bound on the values, only on the tuple lengths) and a "
    "symbolic index value v living in a symbolic-derived source partition. z3 decides, for every path class: the graph has "
    "exactly len(new)-1 output partitions; v is routed through exactly one boundary_slice piece into exactly the output "
    "partition the new divisions dictate; pieces of an output partition are concatenated in increasing order. "
    "RepartitionToFewer._compute_partition_boundaries and RepartitionToMore._nsplits/_layer are executed with symbolic "
    "partition counts: exactly n output partitions, every input partition used once, order kept. Each path model is replayed "
    "natively and (e2e) run through dd.repartition on a real pandas frame. Two float/NumPy-driven sub-kernels are covered by solver-enumerated "
    "inputs only (no symbolic claim): split_evenly's row boundaries tile the partition, and repartition(npartitions=more) on integer divisions "
    "(np.interp in float64, bases up to 2**62) keeps the end divisions, the rows and truthful divisions.")
ASSUMPTIONS = [
    "methods.boundary_slice(df, lo, hi, right) is interpreted by its documented interval meaning [lo, hi) / [lo, hi]; that reading is "
    "validated on every e2e witness with a real pandas frame",
    "old divisions are truthful (C41): partition i holds index values in [a[i], a[i+1]), the last partition is closed",
    "dask.dataframe is imported with a stub `pyarrow` package (absent from the sandbox); arrow code is unreachable here",
    "float arithmetic in _compute_partition_boundaries (n_old / n_new, int(i * ratio)): operands are concretised and CPython's IEEE arithmetic is used",
]
STUBS = ["stub pyarrow package for import", "duck-typed `self` (SimpleNamespace with frame.divisions/_name/npartitions) for the _layer methods"]
ENUM = ["lengths of the division vectors", "n_old/n_new in RepartitionToFewer (float ratio concretises them)", "L and k of split_evenly (np.linspace)", "all inputs of the numeric more-partitions path (np.interp in float64): base value from a list incl. |v| > 2**53 and datetime64[ns] stamps that float64 cannot hold, gaps, npartitions"]
OUTSIDE = ["partition_size beyond the solver-enumerated small frames (memory measurement: no symbolic claim)", "freq"]
BOUNDS = {
    "quick": dict(old_divisions="2..4 symbolic ints, strictly increasing except the last two may be equal", new_divisions="2..4", values="unbounded ints",
                  force="both", tofewer="n_old in [2,16]", tomore="n_old in [1,3], n_new <= 8"),
    "thorough": dict(old_divisions="2..5", new_divisions="2..6", values="unbounded ints", force="both", tofewer="n_old in [2,40]", tomore="n_old in [1,5], n_new <= 14"),
}


def functions():
    return [RP.RepartitionDivisions._layer, RP.RepartitionToFewer._compute_partition_boundaries, RP._clean_new_division_boundaries,
            RP.RepartitionToFewer._layer, RP.RepartitionToMore._nsplits.func, RP.RepartitionToMore._layer]


def part_of(divs, v):
    n = len(divs) - 1
    for i in range(n):
        if i == n - 1:
            return i
        if v < divs[i + 1]:
            return i


def sorted_divs(e, name, n):
    xs = [e.int(f"{name}{i}") for i in range(n)]
    for i in range(n - 1):
        if i < n - 2:
            e.assume(lambda: xs[i] < xs[i + 1])
        else:
            e.assume(lambda: xs[i] <= xs[i + 1])
    return tuple(xs)


def mk_div(na, nb, force):
    def setup(e):
        a = sorted_divs(e, "a", na)
        b = sorted_divs(e, "b", nb)
        if force:
            e.assume(lambda: (b[0] <= a[0]) & (b[-1] >= a[-1]))
        else:
            e.assume(lambda: (b[0] == a[0]) & (b[-1] == a[-1]))
        v = e.int("v")
        e.assume(lambda: (v >= a[0]) & (v <= a[-1]))
        return a, b, v

    def run(e, a, b, v):
        fake = types.SimpleNamespace(frame=types.SimpleNamespace(divisions=a, _name="src"),
                                     new_divisions=b, _name="out-tok", force=force)
        d = RP.RepartitionDivisions._layer(fake)
        src = part_of(a, v)
        # a row (src, v) exists only if v lies in src's range: by construction

        def pieces(x):
            if isinstance(x, tuple) and x and x[0] is methods.boundary_slice:
                return [x]
            if isinstance(x, tuple) and x and x[0] is methods.concat:
                out = []
                for k in x[1]:
                    out += pieces(d[k])
                return out
            return pieces(d[x])

        def selects(t):
            f, (nm, p), lo, hi, rc = t
            if nm != "src":
                raise Violation("piece reads a foreign collection")
            if p != src:
                return False
            if v < lo:
                return False
            return (v <= hi) if rc else (v < hi)

        e.check(all(("out-tok", j) in d for j in range(len(b) - 1)), "an output partition is missing")
        e.check(not any(k[0] == "out-tok" and not (0 <= k[1] < len(b) - 1) for k in d), "too many output partitions")
        want = part_of(b, v)
        hits = []
        for j in range(len(b) - 1):
            ps = pieces(d[("out-tok", j)])
            c = sum(1 for t in ps if selects(t))
            if c:
                hits.append((j, c))
            # concatenation order: source partitions and intervals ascending
            for t1, t2 in zip(ps, ps[1:]):
                e.check(t1[1][1] <= t2[1][1], "pieces concatenated out of partition order")
                e.check(lambda: t1[3] <= t2[2], "pieces of one output partition overlap or are out of order")
        e.check(hits == [(want, 1)], f"row routed to {hits}, new divisions dictate partition {want}")
        return (src, want)

    def e2e(model):
        a = [model[f"a{i}"] for i in range(na)]
        b = [model[f"b{i}"] for i in range(nb)]
        v = model["v"]
        vals = sorted(set(a + [v] + [x for x in b if a[0] <= x <= a[-1]] + [x + 1 for x in a[:-1] if x + 1 <= a[-1]]))
        idx = []
        for x in vals:
            idx += [x, x] if x == v else [x]
        df = pd.DataFrame({"x": range(len(idx))}, index=idx)
        try:
            src = dd.from_pandas(df, npartitions=1).repartition(divisions=a)
        except ValueError:
            return
        if src.divisions != tuple(a):
            return
        out = src.repartition(divisions=b, force=force)
        if out.divisions != tuple(b):
            raise Violation(f"repartition(divisions={b}) reports divisions {out.divisions}")
        if out.npartitions != len(b) - 1:
            raise Violation("npartitions != len(divisions)-1")
        got = out.compute(scheduler="sync")
        if not got.equals(df):
            raise Violation(f"rows changed: a={a} b={b} idx={idx} got={got.index.tolist()}")
        n = out.npartitions
        for i in range(n):
            ix = out.get_partition(i).compute(scheduler="sync").index
            for x in ix:
                ok = (b[i] <= x <= b[i + 1]) if i == n - 1 else (b[i] <= x < b[i + 1])
                if not ok:
                    raise Violation(f"partition {i} of divisions {b} holds index value {x} (old {a})")

    return Obligation(f"divisions[na={na},nb={nb},force={force}]", setup, run, e2e=e2e, e2e_every=5)


def mk_fewer(hi):
    def setup(e):
        n_old = e.int("n_old", 2, hi)
        n_new = e.int("n_new", 1)
        e.assume(lambda: n_new < n_old)
        return n_old, n_new

    def run(e, n_old, n_new):
        bs = RP.RepartitionToFewer._compute_partition_boundaries(n_new, n_old)
        e.check(len(bs) == n_new + 1, "repartition(npartitions=n) does not yield n partitions")
        e.check(bs[0] == 0 and bs[-1] == n_old, "boundaries do not span all input partitions")
        for x, y in zip(bs, bs[1:]):
            e.check(x < y, "empty or reversed group of input partitions")
        fake = types.SimpleNamespace(_partitions_boundaries=bs, _name="out", frame=types.SimpleNamespace(_name="src"))
        d = RP.RepartitionToFewer._layer(fake)
        seen = []
        for i in range(len(bs) - 1):
            f, parts = d[("out", i)]
            e.check(f is _concat, "not a concat")
            seen += [p for (_, p) in parts]
        e.check(seen == list(range(n_old)), "input partitions not used exactly once in order")
        return list(bs)

    def e2e(model):
        n_old, n_new = model["n_old"], model["n_new"]
        df = pd.DataFrame({"x": range(3 * n_old)})
        out = dd.from_pandas(df, npartitions=n_old, sort=False)
        if out.npartitions != n_old:
            return
        r = out.repartition(npartitions=n_new)
        if r.npartitions != n_new or not r.compute(scheduler="sync").equals(df):
            raise Violation(f"repartition(npartitions={n_new}) of {n_old}: npartitions={r.npartitions}")

    return Obligation(f"tofewer[n_old<={hi}]", setup, run, e2e=e2e, e2e_every=1)


def mk_more(old_hi, new_hi):
    def setup(e):
        n_old = e.int("n_old", 1, old_hi)
        n_new = e.int("n_new", 2, new_hi)
        e.assume(lambda: n_new > n_old)
        return n_old, n_new

    def run(e, n_old, n_new):
        frame = types.SimpleNamespace(npartitions=n_old, _name="src")
        fake = types.SimpleNamespace(frame=frame, new_partitions=n_new, _name="out")
        ns = RP.RepartitionToMore._nsplits.func(fake)
        tot = 0
        for k in ns:
            tot = tot + k
        e.check(lambda: tot == n_new, "split counts do not add up to the requested npartitions")
        fake._nsplits = ns
        d = RP.RepartitionToMore._layer(fake)
        outs = sorted(k[1] for k in d if k[0] == "out")
        e.check(lambda: e.equal(len(outs), n_new), "wrong number of output partitions")
        e.check(outs == list(range(len(outs))), "output partition numbers not contiguous")
        last = (-1, -1)
        for j in outs:
            t = d[("out", j)]
            if t[0] == "src":
                cur = (t[1], 0)
            else:
                g, (sn, i), jj = t
                sp = d[(sn, i)]
                e.check(sp[0] is split_evenly and sp[1] == ("src", i), "split task reads the wrong partition")
                e.check(lambda: (jj >= 0) & (jj < sp[2]), "piece index outside the split")
                cur = (i, jj)
            e.check(cur > last, "pieces out of order or duplicated")
            last = cur
        return len(outs)

    def e2e(model):
        n_old, n_new = model["n_old"], model["n_new"]
        df = pd.DataFrame({"x": range(2 * n_new + 1)}, index=[str(i).zfill(3) for i in range(2 * n_new + 1)])
        out = dd.from_pandas(df, npartitions=n_old, sort=True)
        if out.npartitions != n_old:
            return
        r = out.repartition(npartitions=n_new)
        if r.npartitions != n_new or not r.compute(scheduler="sync").equals(df):
            raise Violation(f"repartition(npartitions={n_new}) of {n_old}: npartitions={r.npartitions}")

    return Obligation(f"tomore[n_old<={old_hi},n_new<={new_hi}]", setup, run, e2e=e2e, e2e_every=3)


class _ILoc:
    def __init__(self, owner):
        self.owner = owner

    def __getitem__(self, sl):
        self.owner.taken.append((sl.start, sl.stop))
        return (sl.start, sl.stop)


class _FakeFrame:
    def __init__(self, n):
        self.n, self.taken = n, []
        self.iloc = _ILoc(self)

    def __len__(self):
        return self.n


def mk_split_evenly(Lmax, kmax):
    """split_evenly(df, k) (used by repartition(npartitions=more) on non-numeric divisions and by partition_size): the k pieces
    tile [0, len(df)).  np.linspace is NumPy code: L and k are concretised by the solver (bounded exhaustive)."""
    def setup(e):
        L = e.int("L", 0, Lmax)
        k = e.int("k", 1, kmax)
        return L, k

    def run(e, L, k):
        L, k = operator.index(L), operator.index(k)
        df = _FakeFrame(L)
        out = split_evenly(df, k)
        e.check(sorted(out) == list(range(k)), "split_evenly does not return k pieces")
        pos = 0
        for i in range(k):
            a, b = out[i]
            e.check(a == pos and b >= a, f"piece {i} is rows [{a},{b}) but the previous piece ended at {pos}: rows lost or duplicated")
            pos = b
        e.check(pos == L, f"pieces end at row {pos}, the partition has {L} rows")
        return [tuple(map(int, out[i])) for i in range(k)]

    def e2e(model):
        L, k = model["L"], model["k"]
        if L == 0:
            return
        df = pd.DataFrame({"x": range(L)}, index=[f"r{i:04d}" for i in range(L)])
        src = dd.from_pandas(df, npartitions=1)
        out = src.repartition(npartitions=k)
        got = out.compute(scheduler="sync")
        if not got.equals(df):
            raise Violation(f"repartition(npartitions={k}) of one {L}-row partition with string index: rows changed ({len(got)} of {L})")
        if L >= k and out.npartitions != k:
            raise Violation(f"repartition(npartitions={k}) gave {out.npartitions} partitions")

    return Obligation(f"split_evenly[L<={Lmax},k<={kmax}]", setup, run, e2e=e2e, e2e_every=13)


BASES = (0, -7, 2 ** 53 + 1, 2 ** 62 + 3, -(2 ** 53) - 1)
DT_BASES = (1_700_000_000_001_000_000, 1_700_000_000_000_000_001)      # ns since the epoch; neither is a multiple of 256 ns


def mk_interp(nold_max, nnew_max):
    """repartition(npartitions=more) on known integer divisions interpolates the new divisions in float64 (np.interp); the values are
    concretised.  Bases beyond 2**53 are included because there the float round trip no longer reproduces the end points."""
    def setup(e):
        dt = e.flag("datetime_ns")
        base = e.pick("base", DT_BASES if dt else BASES)
        nold = 1 + e.choice("nold", nold_max)
        gaps = [e.int(f"g{i}", 1, 3) for i in range(nold)]
        nnew = e.int("nnew", 2, nnew_max)
        e.assume(lambda: nnew > nold)
        # number of partitions the call will produce: a guess variable, pinned to the observed value below, so that it is part of
        # the model (the known-finding predicate for "fewer partitions than asked" is stated over it)
        parts = e.int("parts", 1, 2 * nnew_max)
        return dt, base, gaps, nnew, parts

    def run(e, dt, base, gaps, nnew, parts):
        unit = 3_000_000 if dt else 1           # datetime gaps are multiples of 3 ms
        divs = [base]
        for g in gaps:
            divs.append(divs[-1] + operator.index(g) * unit)
        nnew = operator.index(nnew)
        idx = []
        for a, b in zip(divs, divs[1:]):
            idx += list(range(a, b, unit))
        idx.append(divs[-1])
        if dt:
            import numpy as np
            idx = list(pd.DatetimeIndex(np.array(idx, dtype="datetime64[ns]")))
            divs = list(pd.DatetimeIndex(np.array(divs, dtype="datetime64[ns]")))
            df = pd.DataFrame({"x": range(len(idx))}, index=pd.DatetimeIndex(idx))
        else:
            df = pd.DataFrame({"x": range(len(idx))}, index=pd.Index(idx, dtype="int64"))
        src = dd.from_pandas(df, npartitions=1).repartition(divisions=divs)
        e.check(src.divisions == tuple(divs), "setup: source divisions")
        out = src.repartition(npartitions=nnew)
        nparts = len(out.divisions) - 1
        e.assume(lambda: parts == nparts)
        e.check(out.divisions[0] == divs[0] and out.divisions[-1] == divs[-1], f"end divisions changed: {out.divisions} from {divs}")
        e.check(list(out.divisions) == sorted(out.divisions), "divisions not sorted")
        got = out.compute(scheduler="sync")
        e.check(got.equals(df), f"rows changed by repartition(npartitions={nnew}) of divisions {divs}")
        n = nparts
        low = out.optimize()
        e.check(low.npartitions == n, "optimized collection has a different number of partitions than its divisions say")
        for i in range(n):
            ix = low.get_partition(i).compute(scheduler="sync").index
            lo, hi = out.divisions[i], out.divisions[i + 1]
            for x in ix:
                ok = (lo <= x <= hi) if i == n - 1 else (lo <= x < hi)
                e.check(ok, f"partition {i} holds index {x} outside [{lo}, {hi}{']' if i == n - 1 else ')'}")
        # last, so that the clauses above are also decided on inputs covered by the listed known finding
        e.check(lambda: parts == nnew, f"repartition(npartitions={nnew}) of integer divisions {divs} yields {nparts} partitions (divisions {out.divisions})")
        return [str(d) for d in out.divisions]

    return Obligation(f"more_partitions_numeric[nold<={nold_max},nnew<={nnew_max}]", setup, run)


def mk_partition_size(maxparts, maxrows):
    """repartition(partition_size=...) keeps exactly the same rows in the same order (memory measurement and split arithmetic go through
    pandas / NumPy: partition sizes, target size and index kind are solver-enumerated)"""
    def setup(e):
        sizes = [e.int(f"rows{i}", 0, maxrows) for i in range(1 + e.choice("nparts", maxparts))]
        e.assume(lambda: sizes[0] + sum(sizes[1:]) >= 1)
        target = e.pick("partition_size", (40, 100, 400, 10 ** 6))
        known = e.flag("known_divisions")
        return sizes, target, known

    def run(e, sizes, target, known):
        import dask
        sizes = [operator.index(x) for x in sizes]
        n = sum(sizes)
        df = pd.DataFrame({"x": range(n), "y": [float(i) for i in range(n)]}, index=pd.Index(range(100, 100 + n), dtype="int64"))
        parts, pos = [], 0
        for sz in sizes:
            parts.append(df.iloc[pos:pos + sz])
            pos += sz
        if known and all(sizes):
            divs = [p.index[0] for p in parts] + [parts[-1].index[-1]]
            ddf = dd.from_delayed([dask.delayed(p) for p in parts], meta=df.iloc[:0], divisions=divs, verify_meta=False)
        else:
            ddf = dd.from_delayed([dask.delayed(p) for p in parts], meta=df.iloc[:0], verify_meta=False)
        out = ddf.repartition(partition_size=target)
        got = out.compute(scheduler="sync")
        e.check(got.equals(df), f"repartition(partition_size={target}) changed the rows or their order: partition sizes {sizes}, got index {got.index.tolist()[:12]}")
        frames = dask.compute(*out.to_delayed(), scheduler="sync")
        e.check(sum(len(f) for f in frames) == n, "rows lost or duplicated across the output partitions")
        if out.known_divisions:
            d = out.divisions
            e.check(len(frames) == len(d) - 1 and list(d) == sorted(d), f"divisions {d} inconsistent with {len(frames)} partitions")
        # two size-repartitions of the SAME frame with different targets computed in one graph: each keeps its own rows
        other = next(t for t in (40, 100, 400, 10 ** 6) if t != target)
        out2 = ddf.repartition(partition_size=other)
        g1, g2 = dask.compute(out, out2, scheduler="sync")
        e.check(g1.equals(df) and g2.equals(df), f"repartition(partition_size={target}) and (partition_size={other}) of one frame computed together: "
                                                 f"{len(g1)} and {len(g2)} rows instead of {n} (partition sizes {sizes})")
        return [len(f) for f in frames]

    return Obligation(f"partition_size[parts<={maxparts},rows<={maxrows}]", setup, run)


def obligations(tier):
    obs = []
    if tier == "quick":
        for na in (2, 3, 4):
            for nb in (2, 3, 4):
                for force in (False, True):
                    obs.append(mk_div(na, nb, force))
        obs += [mk_fewer(16), mk_more(3, 8), mk_split_evenly(30, 16), mk_interp(2, 5), mk_partition_size(3, 3)]
    else:
        for na in (2, 3, 4, 5):
            for nb in (2, 3, 4, 5, 6):
                for force in (False, True):
                    obs.append(mk_div(na, nb, force))
        obs += [mk_fewer(40), mk_more(5, 14), mk_split_evenly(80, 40), mk_interp(3, 8), mk_partition_size(4, 6)]
    return obs
