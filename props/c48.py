"""C48 -- bag operations equal their plain-Python reference.

Kernels: the real graph builders of dask.bag.core (Bag.map / starmap / filter / remove / map_partitions / pluck / flatten / fold /
reduction / sum / max / min / count / any / all / mean / var / std / accumulate / take / topk / repartition / distinct /
frequencies / foldby / groupby (task shuffle) / join / product, bag_zip, concat, the helpers they put into the graph:
reify, map_chunk, starmap_chunk, empty_safe_apply, empty_safe_aggregate, safe_take, accumulate_part, split, _reduce,
chunk_distinct, merge_distinct, merge_frequencies, dictitems, make_group, repartition_npartitions, _split_partitions,
_repartition_from_boundaries, Bag.__dask_optimize__ (cull / fuse / lazify)) and dask.bag.chunk (getitem, foldby_combine2,
groupby_tasks_group_hash, var_chunk, var_aggregate).  The graphs are executed with the synchronous scheduler, so the symbolic
elements flow through the real reduction trees.  The reference is plain Python on the concatenated list (sum, max, sorted,
functools.reduce, itertools.accumulate, zip, collections.Counter, ...).
"""
from __future__ import annotations

import collections
import functools
import itertools
import math
import operator
import warnings
from fractions import Fraction

import z3

from symx.core import SBool, Violation, HarnessError, _deep_eq
from symx.run import Obligation

import dask
import dask.bag as db
import dask.bag.core as BC
import dask.bag.chunk as CH
from dask._task_spec import DataNode
from dask.delayed import delayed

PROPERTY = "C48"
LEVEL = "other"
BUDGET = {"quick": 200, "thorough": 1500}
EXPLANATION = (
    "Bounded symbolic execution of dask.bag's real graph builders, executed with scheduler='sync'. A bag is built from a hand-made graph "
    "{(name, i): [elements]} whose partition structure (number of partitions, length of every partition, empty partitions anywhere) is "
    "enumerated by the solver and whose elements are SYMBOLIC ints (unbounded unless stated). For every operation the bag expression is built "
    "with the public Bag API, computed, and compared with the plain-Python computation on the concatenated symbolic sequence by z3 equality "
    "per element (the check holds for ALL element values on the path); predicates inside user functions (x % 2 == 0, a >= b, truthiness) and "
    "the comparisons made by max / min / heapq fork in the solver. Operations whose docstrings show ordered results (map, starmap, filter, "
    "remove, map_partitions, pluck, unzip, flatten, accumulate, take, topk, repartition, zip, concat) are compared as ordered lists; product, "
    "distinct, frequencies, foldby, groupby and join are compared as multisets / dicts (multiset equality of symbolic values is a z3 counting "
    "formula). When the Python reference raises (max of an empty sequence, reduce of an empty sequence without initial) dask must raise too, and "
    "the other way round. Reductions (fold, reduction, sum, count, max, min, any, all, topk, frequencies, foldby) are run for every split_every "
    "of the tier (a Python loop inside each path), so every shape of reduction tree over the bounded number of partitions, with empty partitions "
    "anywhere, is covered. take() is checked against its documented first-npartitions semantics including the 'insufficient elements' warning; "
    "repartition(npartitions=m) must have exactly m partitions that are consecutive pieces of the sequence. Every path model is replayed "
    "natively, and an e2e witness pushes a longer concrete sequence derived from the model through db.from_sequence / from_delayed (several "
    "partitionings, empty partitions made with filter, schedulers sync and threads) for all operations, including the disk shuffle, "
    "repartition(partition_size=) and the float statistics, against plain Python.")
ASSUMPTIONS = [
    "the sequence a bag stands for is the concatenation of its partitions in index order (what compute() returns and what every docstring shows); "
    "operations that keep that order in the reference (map, filter, accumulate, take, repartition, zip, concat, ...) are compared in order",
    "fold / foldby: binop and combine are associative and `initial` is a neutral element, as their docstrings require (the reference is "
    "functools.reduce on the concatenated sequence; for a different binop and combine the reference is the documented "
    "reduce(combine, [reduce(binop, part, initial) for part in partitions]) specialised to sums)",
    "zip and multi-bag map / map_partitions: the bags are partitioned identically (documented precondition)",
    "user functions are pure and do not close over symbolic values (they are tokenized by pickling)",
    "exceptions: only 'raises iff the reference raises' is asserted, not the exception type",
    "topk(key=) is checked with an injective key (ties between different elements with equal keys are unspecified)",
    "distinct(key=): any one representative per key is accepted",
]
STUBS = ["none: dask.bag runs unpatched; partitions with tuple elements are put into the graph as dask._task_spec.DataNode literals (a plain "
         "legacy list of tuples would be searched for graph keys, which hashes the elements)"]
ENUM = [
    "partition structure: number of partitions and the length of every partition (solver-enumerated shape variables); accumulate: with / without initial",
    "split_every, k of take / topk, npartitions of take, the target npartitions of repartition, operation variants (broadcast / keyword / Item / "
    "second-bag arguments, pluck keys, flatten length patterns, structure of the second operand of concat / product): Python loops inside each path",
    "hash-based operations concretise what they hash, i.e. those values are ENUMERATED over their range, not solved: distinct and frequencies "
    "hash the elements themselves (elements enumerated up front over [0, 2], plain ints flow through dask); foldby, groupby, join and "
    "distinct(key=) hash only the key x % 2 (the key function concretises it: two values per element) while the elements stay symbolic and unbounded",
    "accumulate / fold / foldby `initial` values and the list operand of join(list) are concrete constants (they are tokenized, i.e. pickled)",
    "mean / var / std: mean_aggregate / var_aggregate convert the symbolic sums with float(); the sums are concretised there (small element "
    "range) and the float result is compared with the exact rational value (relative tolerance 1e-9)",
]
OUTSIDE = [
    "groupby(shuffle='disk') and repartition(partition_size=) in the solver obligations (partd file I/O, pickling, sizeof): only e2e witnesses",
    "random_sample, to_textfiles, to_avro, to_dataframe, read_text, from_url, from_delayed with non-list values, str accessor",
    "schedulers other than 'sync' (threads only in the e2e witnesses), element types other than ints / tuples of ints / lists of ints",
    "more partitions / elements than the bounds of the tier; zip / map of differently partitioned bags",
    "non-associative binops, initial values that are not neutral, topk with a non-injective key",
]
BOUNDS = {
    "quick": dict(structure="1..3 partitions, 0..4 elements in total, every split of the elements over the partitions (empty partitions allowed): map, starmap / "
                            "pluck / unzip, map_partitions, flatten, accumulate, take, repartition, zip / concat / product",
                  reductions="fold / reduction / sum / count (no forks): 1..4 partitions, <= 4 elements, split_every in {2, 3, None}",
                  forking="filter / remove, max / min / fold(max), any / all, topk: 1..3 partitions, <= 3 elements, split_every in {2, None} "
                          "(on <= 3 partitions split_every=3 builds the same graph as None)",
                  hashing="distinct / frequencies: <= 3 partitions, <= 3 elements in [0, 2]; foldby / groupby (task shuffle, max_branch in {None, 2}) / join / "
                          "distinct(key): <= 3 partitions, <= 3 unbounded elements, key x % 2",
                  stats="mean / var / std (ddof 0, 1): <= 2 partitions, <= 3 elements in [-1, 2]",
                  second_operand="concat / product: 3 fixed structures of <= 2 symbolic elements; join: [2*w0, 2*w1 + 1] symbolic as bag / Delayed, constants as list"),
    "thorough": dict(structure="1..5 partitions, 0..5 elements in total (flatten: <= 4 list-valued elements of 0..2 leaves each)", reductions="1..6 partitions, <= 5 elements, split_every in {2, 3, None}",
                     forking="1..4 partitions, <= 4 elements, split_every in {2, 3, None}",
                     hashing="1..4 partitions, <= 4 elements (distinct / frequencies elements in [0, 2])", stats="<= 3 partitions, <= 4 elements in [-2, 2]",
                     second_operand="as quick"),
}

SE = (2, 3, None)


def functions():
    B = BC.Bag
    return [B.map, B.starmap, B.filter, B.remove, B.map_partitions, B.pluck, B.flatten, B.fold, B.reduction, B.sum, B.max, B.min, B.any,
            B.all, B.count, B.mean, B.var, B.std, B.accumulate, B.take, B.topk, B.repartition, B.distinct, B.frequencies, B.foldby,
            B.groupby, B.join, B.product, BC.bag_map, BC.map_partitions, BC.bag_zip, BC.concat, BC.reify, BC.map_chunk, BC._MapChunk.__next__,
            BC.starmap_chunk, BC.empty_safe_apply, BC.empty_safe_aggregate, BC.safe_take, BC.accumulate_part, BC.split, BC._reduce,
            BC.chunk_distinct, BC.merge_distinct, BC.merge_frequencies, BC.dictitems, BC.make_group, BC.groupby_tasks,
            BC.repartition_npartitions, BC._split_partitions, BC._repartition_from_boundaries, BC.finalize, BC.finalize_item, BC.optimize,
            BC.lazify_task, BC.from_sequence, CH.getitem, CH.foldby_combine2, CH.groupby_tasks_group_hash, CH.var_chunk, CH.var_aggregate]


# ---------------------------------------------------------------------------
# inputs


def structure(e, maxnp, maxn, pre=""):
    """solver-enumerated partition structure: 1..maxnp partitions, total length <= maxn"""
    np_ = 1 + e.choice(pre + "np", maxnp)
    sizes, left = [], maxn
    for i in range(np_):
        s = e.choice(f"{pre}n{i}", left + 1)
        sizes.append(s)
        left -= s
    return sizes


def elems(e, sizes, name="x", lo=None, hi=None):
    parts, k = [], 0
    for s in sizes:
        parts.append([e.int(f"{name}{k + j}", lo, hi) for j in range(s)])
        k += s
    return parts


def elems_enum(e, sizes, name, lo, hi):
    """elements that the code under test hashes: enumerated by the solver up front (plain ints flow through dask)"""
    parts, k = [], 0
    for s in sizes:
        parts.append([lo + e.choice(f"{name}{k + j}", hi - lo + 1) for j in range(s)])
        k += s
    return parts


def mkbag(name, parts, literal=False):
    """Bag from a hand-made graph; `literal`: DataNode values (needed when elements are tuples)"""
    if literal:
        dsk = {(name, i): DataNode((name, i), list(p)) for i, p in enumerate(parts)}
    else:
        dsk = {(name, i): list(p) for i, p in enumerate(parts)}
    return BC.Bag(dsk, name, len(parts))


def cat(parts):
    return [x for p in parts for x in p]


def comp(x):
    return x.compute(scheduler="sync")


# ---------------------------------------------------------------------------
# comparing


RAISED = "raised"


def attempt(fn):
    try:
        return fn()
    except (Violation, HarnessError):
        raise
    except Exception as ex:
        return (RAISED, type(ex).__name__)


def is_raised(v):
    return isinstance(v, tuple) and len(v) == 2 and v[0] == RAISED


def multiset_eq(e, a, b):
    a, b = list(a), list(b)
    if len(a) != len(b):
        return False
    if e.mode == "native":
        return sorted(map(repr, a)) == sorted(map(repr, b))
    conj = []
    for x in a:
        ca = z3.Sum([z3.If(_deep_eq(y, x), 1, 0) for y in a] + [z3.IntVal(0)])
        cb = z3.Sum([z3.If(_deep_eq(y, x), 1, 0) for y in b] + [z3.IntVal(0)])
        conj.append(ca == cb)
    return SBool(z3.And(conj)) if conj else True


def _and(e, xs):
    xs = list(xs)
    if e.mode == "native":
        return all(xs)
    return SBool(z3.And([x.z if isinstance(x, SBool) else z3.BoolVal(bool(x)) for x in xs])) if xs else True


def groups_eq(e, got, want):
    """got, want: dict concrete key -> list; equal keys, every group equal as a multiset"""
    if set(got) != set(want):
        return False
    return _and(e, [multiset_eq(e, got[k], want[k]) for k in want])


CMP = {"eq": lambda e, a, b: e.equal(a, b), "multiset": multiset_eq, "groups": groups_eq}


def _show(e, v):
    if is_raised(v):
        return f"raised {v[1]}"
    return f"returned {v!r}"[:160] if e.mode == "native" else "returned a value"


def decide(e, label, got_fn, want_fn, how="eq", post=None):
    """run dask (got_fn) and the reference (want_fn), assert agreement, return the observation"""
    got = attempt(got_fn)
    want = attempt(want_fn)
    if is_raised(got) or is_raised(want):
        e.check(is_raised(got) and is_raised(want), f"{label}: dask {_show(e, got)} but the Python reference {_show(e, want)}")
        return (label, RAISED)
    if post is not None:
        got = post(got)
    e.check(lambda: CMP[how](e, got, want), f"{label}: dask {_show(e, got)}, the Python reference {_show(e, want)}")
    return (label, got if how == "eq" else want)


def conc(k):
    """value of a key that the code under test has already hashed (pinned by the path: no new fork)"""
    return operator.index(k)


# ---------------------------------------------------------------------------
# user functions (module level: tokenized by reference, no closures over symbols)


def f_affine(x):
    return x * 2 + 1


def f_two(x, c):
    return x * 3 - c


def f_kw(x, c=0):
    return x * 3 - c


def f_pair(x, y):
    return x - 2 * y


def f_pair_kw(x, y, z=0):
    return x - 2 * y + z


def is_even(x):
    return x % 2 == 0


def key_mod2(x):
    """grouping key; dask hashes it, so it is concretised right here (two values per element) and dask's dicts hold plain ints"""
    return operator.index(x % 2)


def neg(x):
    return -x


def half(x):
    return x // 2


def add(a, b):
    return a + b


def bigger(a, b):
    return a if a >= b else b


def last(a, b):
    return b


def first_(a, b):
    return a


def horner(a, x):
    return 2 * a + x


def acc_affine(acc, x):
    return acc + 2 * x + 1


def acc_count(acc, x):
    return acc + 1


def part_sum(p):
    return [sum(p)]


def part_rev(p):
    return list(reversed(list(p)))


def part_plus(p, c):
    return [x + c for x in p]


def part_kw(p, c=0):
    return [x + c for x in p]


def part_zip(p, q):
    return [x - 2 * y for x, y in zip(p, q)]


def part_zip_kw(p, q=None):
    return [x - 2 * y for x, y in zip(p, q)]


def part_len(p):
    return len(list(p))


def part_sum_list(p):
    return [sum(p)]


def agg_sum_list(ps):
    return [sum(x for p in ps for x in p)]


# ---------------------------------------------------------------------------
# obligations


def mk(name, setup, body, every=23):
    def run(e, *args):
        out = []
        with dask.config.set(scheduler="sync"):      # Bag.take(compute=True) computes with the configured default scheduler
            body(e, out, *args)
        return out
    return Obligation(name, setup, run, e2e=e2e_witness, e2e_every=every)


def ob_map(maxnp, maxn):
    def setup(e):
        sizes = structure(e, maxnp, maxn)
        return elems(e, sizes, "x"), elems(e, sizes, "y")

    def body(e, out, xp, yp):
        b, b2 = mkbag("p", xp), mkbag("q", yp)
        xs, ys = cat(xp), cat(yp)
        tot = 0
        for x in xs:
            tot = tot + x
        out.append(decide(e, "map(f)", lambda: comp(b.map(f_affine)), lambda: [f_affine(x) for x in xs]))
        out.append(decide(e, "map(f, 10)", lambda: comp(b.map(f_two, 10)), lambda: [f_two(x, 10) for x in xs]))
        out.append(decide(e, "map(f, c=7)", lambda: comp(b.map(f_kw, c=7)), lambda: [f_kw(x, c=7) for x in xs]))
        out.append(decide(e, "map(f, bag)", lambda: comp(b.map(f_pair, b2)), lambda: [f_pair(x, y) for x, y in zip(xs, ys)]))
        out.append(decide(e, "map(f, c=bag)", lambda: comp(b.map(f_kw, c=b2)), lambda: [f_kw(x, c=y) for x, y in zip(xs, ys)]))
        out.append(decide(e, "map(f, Item)", lambda: comp(b.map(f_two, b2.sum())), lambda: [f_two(x, sum(ys)) for x in xs]))
        out.append(decide(e, "map(f, c=Item)", lambda: comp(b.map(f_kw, c=b.sum())), lambda: [f_kw(x, c=tot) for x in xs]))
        out.append(decide(e, "db.map(f, bag, bag)", lambda: comp(db.map(f_pair, b2, b)), lambda: [f_pair(y, x) for x, y in zip(xs, ys)]))
        out.append(decide(e, "map.map", lambda: comp(b.map(f_affine).map(f_two, 1)), lambda: [f_two(f_affine(x), 1) for x in xs]))

    return mk(f"map[np<={maxnp},n<={maxn}]", setup, body)


def ob_starmap(maxnp, maxn):
    def setup(e):
        sizes = structure(e, maxnp, maxn)
        return elems(e, sizes, "x"), elems(e, sizes, "y")

    def body(e, out, xp, yp):
        pairs = [list(zip(p, q)) for p, q in zip(xp, yp)]
        b = mkbag("p", pairs, literal=True)
        seq = cat(pairs)
        out.append(decide(e, "starmap(f)", lambda: comp(b.starmap(f_pair)), lambda: [f_pair(x, y) for x, y in seq]))
        out.append(decide(e, "starmap(f, z=5)", lambda: comp(b.starmap(f_pair_kw, z=5)), lambda: [f_pair_kw(x, y, z=5) for x, y in seq]))
        out.append(decide(e, "starmap(f, z=Item)", lambda: comp(b.starmap(f_pair_kw, z=b.count())),
                          lambda: [f_pair_kw(x, y, z=len(seq)) for x, y in seq]))
        out.append(decide(e, "pluck(0)", lambda: comp(b.pluck(0)), lambda: [t[0] for t in seq]))
        out.append(decide(e, "pluck(1)", lambda: comp(b.pluck(1)), lambda: [t[1] for t in seq]))
        out.append(decide(e, "pluck([1, 0])", lambda: comp(b.pluck([1, 0])), lambda: [(t[1], t[0]) for t in seq]))
        out.append(decide(e, "pluck(2, default)", lambda: comp(b.pluck(2, -7)), lambda: [-7 for t in seq]))
        # ragged tuples: every second element has length 1
        rag, k = [], 0
        for p in pairs:
            rag.append([t if (k + j) % 2 == 0 else t[:1] for j, t in enumerate(p)])
            k += len(p)
        br = mkbag("r", rag, literal=True)
        out.append(decide(e, "pluck(1, default) ragged", lambda: comp(br.pluck(1, -7)),
                          lambda: [t[1] if len(t) > 1 else -7 for t in cat(rag)]))
        first, second = b.unzip(2)
        out.append(decide(e, "unzip", lambda: [comp(first), comp(second)], lambda: [[t[0] for t in seq], [t[1] for t in seq]]))

    return mk(f"starmap_pluck[np<={maxnp},n<={maxn}]", setup, body)


def ob_filter(maxnp, maxn):
    def setup(e):
        return (elems(e, structure(e, maxnp, maxn), "x"),)

    def body(e, out, xp):
        b = mkbag("p", xp)
        xs = cat(xp)
        out.append(decide(e, "filter", lambda: comp(b.filter(is_even)), lambda: [x for x in xs if is_even(x)]))
        out.append(decide(e, "remove", lambda: comp(b.remove(is_even)), lambda: [x for x in xs if not is_even(x)]))
        out.append(decide(e, "filter.map.sum", lambda: comp(b.filter(is_even).map(f_affine).sum(split_every=2)),
                          lambda: sum(f_affine(x) for x in xs if is_even(x))))
        out.append(decide(e, "remove.count", lambda: comp(b.remove(is_even).count(split_every=2)),
                          lambda: len([x for x in xs if not is_even(x)])))

    return mk(f"filter_remove[np<={maxnp},n<={maxn}]", setup, body)


def ob_map_partitions(maxnp, maxn):
    def setup(e):
        sizes = structure(e, maxnp, maxn)
        return elems(e, sizes, "x"), elems(e, sizes, "y")

    def body(e, out, xp, yp):
        b, b2 = mkbag("p", xp), mkbag("q", yp)
        n = len(cat(xp))
        out.append(decide(e, "map_partitions(sum)", lambda: comp(b.map_partitions(part_sum)), lambda: cat(part_sum(p) for p in xp)))
        out.append(decide(e, "map_partitions(reversed)", lambda: comp(b.map_partitions(part_rev)), lambda: cat(part_rev(p) for p in xp)))
        out.append(decide(e, "map_partitions(f, 3)", lambda: comp(b.map_partitions(part_plus, 3)), lambda: cat(part_plus(p, 3) for p in xp)))
        out.append(decide(e, "map_partitions(f, c=3)", lambda: comp(b.map_partitions(part_kw, c=3)), lambda: cat(part_kw(p, c=3) for p in xp)))
        out.append(decide(e, "map_partitions(f, Item)", lambda: comp(b.map_partitions(part_plus, b.count())),
                          lambda: cat(part_plus(p, n) for p in xp)))
        out.append(decide(e, "map_partitions(f, c=Item)", lambda: comp(b.map_partitions(part_kw, c=b.count())),
                          lambda: cat(part_kw(p, c=n) for p in xp)))
        out.append(decide(e, "map_partitions(f, bag)", lambda: comp(b.map_partitions(part_zip, b2)),
                          lambda: cat(part_zip(p, q) for p, q in zip(xp, yp))))
        out.append(decide(e, "map_partitions(f, q=bag)", lambda: comp(b.map_partitions(part_zip_kw, q=b2)),
                          lambda: cat(part_zip_kw(p, q=q) for p, q in zip(xp, yp))))

    return mk(f"map_partitions[np<={maxnp},n<={maxn}]", setup, body)


FLAT_PATTERNS = ((1, 0, 2, 1), (0, 2, 1, 1), (2, 1, 0, 1))


def ob_flatten(maxnp, maxn):
    """bag elements are lists; element k has length pattern[k % 4]"""
    def setup(e):
        sizes = structure(e, maxnp, maxn)
        leaves = [e.int(f"x{i}") for i in range(2 * maxn + 2)]
        return sizes, leaves

    def body(e, out, sizes, leaves):
        for pat in FLAT_PATTERNS:
            parts, k, used = [], 0, 0
            for s in sizes:
                p = []
                for _ in range(s):
                    ln = pat[k % 4]
                    p.append(leaves[used:used + ln])
                    used += ln
                    k += 1
                parts.append(p)
            b = mkbag("p", parts)
            out.append(decide(e, f"flatten{pat}", lambda: comp(b.flatten()), lambda: [x for p in parts for el in p for x in el]))
            out.append(decide(e, f"map(len){pat}", lambda: comp(b.map(len)), lambda: [len(el) for p in parts for el in p]))

    return mk(f"flatten[np<={maxnp},n<={maxn}]", setup, body)


def py_reduce(binop, seq, *init):
    return functools.reduce(binop, seq, *init)


def ob_fold_initial(maxnp, maxn, ses):
    """all_empty is a model variable so that a known-finding predicate can name the region (>= 2 partitions, all of them empty)"""
    def setup(e):
        sizes = structure(e, maxnp, maxn)
        ae = e.int("all_empty", 0, 1)
        flag = int(len(sizes) >= 2 and not any(sizes))
        e.assume(lambda: ae == flag)
        return (elems(e, sizes, "x"),)

    def body(e, out, xp):
        b = mkbag("p", xp)
        xs = cat(xp)
        for se in ses:
            out.append(decide(e, f"fold(add, initial=0) se={se}", lambda: comp(b.fold(add, initial=0, split_every=se)), lambda: py_reduce(add, xs, 0)))
            out.append(decide(e, f"fold(binop, add, 0) se={se}", lambda: comp(b.fold(acc_affine, add, initial=0, split_every=se)),
                              lambda: sum(2 * x + 1 for x in xs)))
            out.append(decide(e, f"fold(count, add, 0) se={se}", lambda: comp(b.fold(acc_count, add, initial=0, split_every=se)), lambda: len(xs)))

    return mk(f"fold_initial[np<={maxnp},n<={maxn}]", setup, body)


def ob_fold(maxnp, maxn, ses):
    def setup(e):
        return (elems(e, structure(e, maxnp, maxn), "x"),)

    def body(e, out, xp):
        b = mkbag("p", xp)
        xs = cat(xp)
        for se in ses:
            out.append(decide(e, f"fold(add) se={se}", lambda: comp(b.fold(add, split_every=se)), lambda: py_reduce(add, xs)))
            out.append(decide(e, f"fold(last) se={se}", lambda: comp(b.fold(last, split_every=se)), lambda: py_reduce(last, xs)))
            out.append(decide(e, f"fold(first) se={se}", lambda: comp(b.fold(first_, split_every=se)), lambda: py_reduce(first_, xs)))
            out.append(decide(e, f"reduction(sum, sum) se={se}", lambda: comp(b.reduction(sum, sum, split_every=se)), lambda: sum(xs)))
            out.append(decide(e, f"reduction(len, sum) se={se}", lambda: comp(b.reduction(part_len, sum, split_every=se)), lambda: len(xs)))
            out.append(decide(e, f"reduction(out_type=Bag) se={se}",
                              lambda: comp(b.reduction(part_sum_list, agg_sum_list, split_every=se, out_type=BC.Bag)), lambda: [sum(xs)]))
            out.append(decide(e, f"sum se={se}", lambda: comp(b.sum(split_every=se)), lambda: sum(xs)))
            out.append(decide(e, f"count se={se}", lambda: comp(b.count(split_every=se)), lambda: len(xs)))
        out.append(decide(e, "reduction(split_every=False)", lambda: comp(b.reduction(sum, sum, split_every=False)), lambda: sum(xs)))

    return mk(f"fold_reduction_sum_count[np<={maxnp},n<={maxn}]", setup, body)


def ob_maxmin(maxnp, maxn, ses):
    def setup(e):
        return (elems(e, structure(e, maxnp, maxn), "x"),)

    def body(e, out, xp):
        b = mkbag("p", xp)
        xs = cat(xp)
        for se in ses:
            out.append(decide(e, f"max se={se}", lambda: comp(b.max(split_every=se)), lambda: max(xs)))
            out.append(decide(e, f"min se={se}", lambda: comp(b.min(split_every=se)), lambda: min(xs)))
            out.append(decide(e, f"fold(bigger) se={se}", lambda: comp(b.fold(bigger, split_every=se)), lambda: py_reduce(bigger, xs)))

    return mk(f"max_min[np<={maxnp},n<={maxn}]", setup, body)


def ob_anyall(maxnp, maxn, ses):
    def setup(e):
        return (elems(e, structure(e, maxnp, maxn), "x"),)

    def body(e, out, xp):
        b = mkbag("p", xp)
        xs = cat(xp)
        for se in ses:
            out.append(decide(e, f"any se={se}", lambda: comp(b.any(split_every=se)), lambda: any(xs)))
            out.append(decide(e, f"all se={se}", lambda: comp(b.all(split_every=se)), lambda: all(xs)))

    return mk(f"any_all[np<={maxnp},n<={maxn}]", setup, body)


def ob_accumulate(maxnp, maxn):
    """has_init and empty_head are model variables so that a known-finding predicate can name a region"""
    def setup(e):
        sizes = structure(e, maxnp, maxn)
        has_init = e.flag("has_init")
        head = 0
        for s in sizes:
            if s:
                break
            head += 1
        eh = e.int("empty_head", 0, 1)
        flag = int(0 < head < len(sizes))      # the first partition is empty and a later one is not
        e.assume(lambda: eh == flag)
        return elems(e, sizes, "x"), has_init

    def body(e, out, xp, has_init):
        b = mkbag("p", xp)
        xs = cat(xp)
        for name, binop in (("add", add), ("horner", horner)):
            if has_init:
                out.append(decide(e, f"accumulate({name}, initial=5)", lambda: comp(b.accumulate(binop, initial=5)),
                                  lambda: list(itertools.accumulate(xs, binop, initial=5))))
            else:
                out.append(decide(e, f"accumulate({name})", lambda: comp(b.accumulate(binop)), lambda: list(itertools.accumulate(xs, binop))))

    return mk(f"accumulate[np<={maxnp},n<={maxn}]", setup, body)


def ob_take(maxnp, maxn):
    def setup(e):
        return (elems(e, structure(e, maxnp, maxn), "x"),)

    def body(e, out, xp):
        b = mkbag("p", xp)
        np_ = len(xp)
        for m in (1, 2, 3, -1):
            for k in range(0, maxn + 2):
                if m > np_:
                    got = attempt(lambda: b.take(k, npartitions=m))
                    e.check(is_raised(got) and got[1] == "ValueError", f"take({k}, npartitions={m}) on {np_} partitions did not raise ValueError")
                    continue
                pool = cat(xp if m == -1 else xp[:m])
                want = tuple(pool[:k])
                with warnings.catch_warnings(record=True) as w:
                    warnings.simplefilter("always")
                    got = attempt(lambda: b.take(k, npartitions=m))
                e.check(not is_raised(got), f"take({k}, npartitions={m}) raised {got}")
                e.check(lambda: e.equal(got, want), f"take({k}, npartitions={m}): first-{m}-partitions semantics violated")
                warned = any("Insufficient elements" in str(x.message) for x in w)
                e.check(warned == (len(pool) < k), f"take({k}, npartitions={m}): warning {'issued' if warned else 'missing'} with {len(pool)} available")
                out.append((m, k, got))
        with warnings.catch_warnings(record=True) as w:
            warnings.simplefilter("always")
            out.append(decide(e, "take(2, compute=False)", lambda: comp(b.take(2, compute=False, warn=False)), lambda: xp[0][:2]))
            e.check(not w, "take(warn=False) warned")

    return mk(f"take[np<={maxnp},n<={maxn}]", setup, body)


def ob_topk(maxnp, maxn, ses):
    def setup(e):
        return (elems(e, structure(e, maxnp, maxn), "x"),)

    def body(e, out, xp):
        b = mkbag("p", xp)
        xs = cat(xp)
        for se in ses:
            for k in range(1, maxn + 1):
                out.append(decide(e, f"topk({k}) se={se}", lambda: comp(b.topk(k, split_every=se)), lambda: sorted(xs, reverse=True)[:k]))
            out.append(decide(e, f"topk(2, key=neg) se={se}", lambda: comp(b.topk(2, key=neg, split_every=se)), lambda: sorted(xs)[:2]))

    return mk(f"topk[np<={maxnp},n<={maxn}]", setup, body)


def ob_repartition(maxnp, maxn):
    def setup(e):
        return (elems(e, structure(e, maxnp, maxn), "x"),)

    def body(e, out, xp):
        b = mkbag("p", xp)
        xs = cat(xp)
        for m in range(1, maxnp + 3):
            r = attempt(lambda: b.repartition(npartitions=m))
            e.check(not is_raised(r), f"repartition({m}) raised {r}")
            e.check(r.npartitions == m, f"repartition(npartitions={m}) of {len(xp)} partitions has {r.npartitions} partitions")
            out.append(decide(e, f"repartition({m})", lambda: comp(r), lambda: xs))
            # the new partitions are consecutive pieces of the sequence
            pieces = attempt(lambda: list(dask.compute(*[d for d in r.map_partitions(lambda p: [list(p)]).to_delayed()], scheduler="sync")))
            e.check(not is_raised(pieces), f"repartition({m}) partitions raised {pieces}")
            e.check(lambda: e.equal([x for p in pieces for el in p for x in el], xs), f"repartition({m}): partitions are not consecutive pieces")
            out.append(decide(e, f"repartition({m}).repartition(2).sum", lambda: comp(r.repartition(npartitions=2).sum()), lambda: sum(xs)))

    return mk(f"repartition[np<={maxnp},n<={maxn}]", setup, body)


SECOND = ((2,), (0, 1), (1, 0, 1))


def ob_zip_concat(maxnp, maxn):
    def setup(e):
        sizes = structure(e, maxnp, maxn)
        return elems(e, sizes, "x"), elems(e, sizes, "y"), elems(e, sizes, "z"), [e.int(f"w{i}") for i in range(2)]

    def body(e, out, xp, yp, zp, ws):
        b, b2, b3 = mkbag("p", xp), mkbag("q", yp), mkbag("r", zp)
        xs, ys, zs = cat(xp), cat(yp), cat(zp)
        out.append(decide(e, "zip(a, b)", lambda: comp(db.zip(b, b2)), lambda: list(zip(xs, ys))))
        out.append(decide(e, "zip(a, b, c)", lambda: comp(db.zip(b, b2, b3)), lambda: list(zip(xs, ys, zs))))
        out.append(decide(e, "zip.starmap", lambda: comp(db.zip(b2, b).starmap(f_pair)), lambda: [f_pair(y, x) for x, y in zip(xs, ys)]))
        out.append(decide(e, "concat([a, b])", lambda: comp(db.concat([b, b2])), lambda: xs + ys))
        out.append(decide(e, "concat([a])", lambda: comp(db.concat([b])), lambda: xs))
        for st in SECOND:
            wp, k = [], 0
            for s in st:
                wp.append(ws[k:k + s])
                k += s
            bw = mkbag("w", wp)
            wl = cat(wp)
            out.append(decide(e, f"concat([w{st}, a, w])", lambda: comp(db.concat([bw, b, bw])), lambda: wl + xs + wl))
            out.append(decide(e, f"a.product(w{st})", lambda: comp(b.product(bw)), lambda: list(itertools.product(xs, wl)), how="multiset")[0])
            out.append(decide(e, f"w{st}.product(a).count", lambda: comp(bw.product(b).count()), lambda: len(xs) * len(wl)))

    return mk(f"zip_concat_product[np<={maxnp},n<={maxn}]", setup, body)


def ob_distinct(maxnp, maxn, lo, hi, ses):
    """elements are hashed: enumerated over [lo, hi]"""
    def setup(e):
        return (elems_enum(e, structure(e, maxnp, maxn), "x", lo, hi),)

    def body(e, out, xp):
        b = mkbag("p", xp)
        xs = cat(xp)
        out.append(decide(e, "distinct", lambda: comp(b.distinct()), lambda: sorted({conc(x) for x in xs}), post=lambda g: sorted(map(conc, g))))
        for se in ses:
            for srt in (False, True):
                got = attempt(lambda: comp(b.frequencies(split_every=se, sort=srt)))
                e.check(not is_raised(got), f"frequencies raised {got}")
                want = dict(collections.Counter(conc(x) for x in xs))
                gd = {conc(k): conc(v) for k, v in got}
                e.check(len(gd) == len(got), f"frequencies(split_every={se}) lists a key twice")
                e.check(gd == want, f"frequencies(split_every={se}, sort={srt}) = {gd}, Counter = {want}")
                if srt:
                    cnt = [conc(v) for _, v in got]
                    e.check(cnt == sorted(cnt, reverse=True), "frequencies(sort=True) is not sorted by decreasing count")
                out.append((se, srt, sorted(gd.items())))

    return mk(f"distinct_frequencies[np<={maxnp},n<={maxn},x in [{lo},{hi}]]", setup, body)


def ob_distinct_key(maxnp, maxn):
    def setup(e):
        return (elems(e, structure(e, maxnp, maxn), "x"),)

    def body(e, out, xp):
        b = mkbag("p", xp)
        xs = cat(xp)
        got = attempt(lambda: comp(b.distinct(key=key_mod2)))
        e.check(not is_raised(got), f"distinct(key) raised {got}")
        gk = [conc(key_mod2(x)) for x in got]
        wk = sorted({conc(key_mod2(x)) for x in xs})
        e.check(sorted(gk) == wk, f"distinct(key): keys of the result {gk}, distinct keys of the sequence {wk}")
        for g in got:     # every representative is an element of the sequence with that key
            e.check(lambda: _or_eq(e, g, xs), "distinct(key) returned a value that is not in the bag")
        out.append(wk)

    return mk(f"distinct_key[np<={maxnp},n<={maxn}]", setup, body)


def _or_eq(e, g, xs):
    if e.mode == "native":
        return any(g == x for x in xs)
    return SBool(z3.Or([_deep_eq(g, x) for x in xs] + [z3.BoolVal(False)]))


def ref_foldby(key, binop, seq, *init):
    groups = collections.OrderedDict()
    for x in seq:
        groups.setdefault(conc(key(x)), []).append(x)
    return {k: functools.reduce(binop, v, *init) for k, v in groups.items()}


def ob_foldby(maxnp, maxn, ses):
    """the key x % 2 is hashed (enumerated: 2 values per element); the elements stay symbolic"""
    def setup(e):
        return (elems(e, structure(e, maxnp, maxn), "x"),)

    def body(e, out, xp):
        b = mkbag("p", xp)
        xs = cat(xp)

        def as_dict(got):
            d = {conc(k): v for k, v in got}
            if len(d) != len(got):
                raise Violation("foldby lists a key twice")
            return d

        for se in ses:
            out.append(decide(e, f"foldby(key, add) se={se}", lambda: as_dict(comp(b.foldby(key_mod2, add, split_every=se))),
                              lambda: ref_foldby(key_mod2, add, xs)))
            out.append(decide(e, f"foldby(key, add, 0) se={se}", lambda: as_dict(comp(b.foldby(key_mod2, add, 0, split_every=se))),
                              lambda: ref_foldby(key_mod2, add, xs, 0)))
            out.append(decide(e, f"foldby(key, binop, 0, add, 0) se={se}",
                              lambda: as_dict(comp(b.foldby(key_mod2, acc_affine, 0, add, 0, split_every=se))),
                              lambda: ref_foldby(key_mod2, acc_affine, xs, 0)))
            out.append(decide(e, f"foldby(key, count, 0, add) se={se}",
                              lambda: as_dict(comp(b.foldby(key_mod2, acc_count, 0, add, split_every=se))),
                              lambda: ref_foldby(key_mod2, acc_count, xs, 0)))
            out.append(decide(e, f"foldby(key, last) se={se}", lambda: as_dict(comp(b.foldby(key_mod2, last, split_every=se))),
                              lambda: ref_foldby(key_mod2, last, xs)))

    return mk(f"foldby[np<={maxnp},n<={maxn}]", setup, body)


def ob_groupby(maxnp, maxn):
    def setup(e):
        return (elems(e, structure(e, maxnp, maxn), "x"),)

    def body(e, out, xp):
        b = mkbag("p", xp)
        xs = cat(xp)

        def as_groups(got):
            d = {conc(k): list(v) for k, v in got}
            if len(d) != len(got):
                raise Violation("groupby lists a key twice")
            return d

        def ref():
            d = {}
            for x in xs:
                d.setdefault(conc(key_mod2(x)), []).append(x)
            return d

        for mb in (None, 2):
            out.append(decide(e, f"groupby(key, shuffle='tasks', max_branch={mb})",
                              lambda: as_groups(comp(b.groupby(key_mod2, shuffle="tasks", max_branch=mb))), ref, how="groups")[0])
        out.append(decide(e, "groupby.map(len of group)", lambda: sorted((conc(k), n) for k, n in comp(b.groupby(key_mod2, shuffle="tasks").map(_group_len))),
                          lambda: sorted((k, len(v)) for k, v in ref().items())))

    return mk(f"groupby_tasks[np<={maxnp},n<={maxn}]", setup, body)


class _Const:
    """callable returning a constant tuple (keeps symbolic values out of delayed's argument traversal)"""

    def __init__(self, v):
        self.v = tuple(v)

    def __call__(self):
        return self.v


def _group_len(kv):
    return (kv[0], len(kv[1]))


def ob_join(maxnp, maxn):
    def setup(e):
        return elems(e, structure(e, maxnp, maxn), "x"), [e.int(f"w{i}") for i in range(2)]

    def body(e, out, xp, ws):
        b = mkbag("p", xp)
        xs = cat(xp)
        ws = [2 * ws[0], 2 * ws[1] + 1]       # symbolic, one even and one odd (the keys of the second operand do not fork)

        def ref(other):
            return [(o, s) for s in xs for o in other if conc(key_mod2(o)) == conc(key_mod2(s))]

        # a list operand is tokenized (pickled), so it is concrete here; bag / delayed operands carry symbolic elements
        out.append(decide(e, "join(list)", lambda: comp(b.join([4, 7, 10], key_mod2)), lambda: ref([4, 7, 10]), how="multiset")[0])
        out.append(decide(e, "join(tuple, on_self, on_other)", lambda: comp(b.join((3,), key_mod2, half)),
                          lambda: [(o, s) for s in xs for o in (3,) if half(o) == conc(key_mod2(s))], how="multiset")[0])
        out.append(decide(e, "join(single-partition bag)", lambda: comp(b.join(mkbag("w", [ws]), key_mod2)), lambda: ref(ws), how="multiset")[0])
        out.append(decide(e, "join(delayed)", lambda: comp(b.join(delayed(_Const(ws))(), key_mod2)), lambda: ref(ws), how="multiset")[0])
        got = attempt(lambda: b.join(mkbag("w2", [ws[:1], ws[1:]]), key_mod2))
        e.check(is_raised(got) and got[1] == "NotImplementedError", "join with a multi-partition bag did not raise NotImplementedError")

    return mk(f"join[np<={maxnp},n<={maxn}]", setup, body)


def ob_stats(maxnp, maxn, lo, hi):
    """float statistics: the symbolic sums are concretised by float() inside mean_aggregate / var_aggregate"""
    def setup(e):
        return (elems(e, structure(e, maxnp, maxn), "x", lo, hi),)

    def body(e, out, xp):
        b = mkbag("p", xp)
        xs = cat(xp)
        n = len(xs)

        def exact():
            s1 = conc(sum(xs))
            s2 = conc(sum(x * x for x in xs))
            return s1, s2

        def close(got, want):
            return isinstance(got, float) and abs(got - float(want)) <= 1e-9 * max(1.0, abs(float(want)))

        got = attempt(lambda: comp(b.mean()))
        if n == 0:
            e.check(is_raised(got), "mean of an empty bag returned a value")
        else:
            e.check(not is_raised(got), f"mean raised {got}")
            got = float(got)
            s1, s2 = exact()
            e.check(close(got, Fraction(s1, n)), f"mean = {got}, exact {Fraction(s1, n)}")
            out.append(("mean", got))
        for ddof in (0, 1):
            gv = attempt(lambda: comp(b.var(ddof=ddof)))
            gs = attempt(lambda: comp(b.std(ddof=ddof)))
            if n - ddof <= 0:
                e.check(is_raised(gv) and is_raised(gs), f"var/std(ddof={ddof}) of {n} elements returned a value")
                continue
            e.check(not is_raised(gv) and not is_raised(gs), f"var/std(ddof={ddof}) raised {gv} {gs}")
            s1, s2 = exact()
            want = Fraction(n * s2 - s1 * s1, n * (n - ddof))
            e.check(close(gv, want), f"var(ddof={ddof}) = {gv}, exact {want}")
            e.check(close(gs, math.sqrt(want)), f"std(ddof={ddof}) = {gs}, exact {math.sqrt(want)}")
            out.append((ddof, gv, gs))

    return mk(f"mean_var_std[np<={maxnp},n<={maxn},x in [{lo},{hi}]]", setup, body)


# ---------------------------------------------------------------------------
# e2e witness: a longer concrete sequence derived from the model through the public constructors


def _e2e_bags(seq):
    big = [x + 1000 if (i // 2) % 3 != 1 else x for i, x in enumerate(seq)]
    return [
        ("npartitions=1", lambda: db.from_sequence(seq, npartitions=1), seq),
        ("npartitions=3", lambda: db.from_sequence(seq, npartitions=3), seq),
        ("partition_size=2", lambda: db.from_sequence(seq, partition_size=2), seq),
        # empty partitions the way users get them: a filter that empties whole partitions (here also the first one)
        ("filtered", lambda: db.from_sequence(big, partition_size=2).filter(_small), [x for x in big if _small(x)]),
        ("from_delayed", lambda: db.from_delayed([delayed(list)(seq[:1]), delayed(list)([]), delayed(list)(seq[1:])]), seq),
    ]


def _small(x):
    return x < 500


def _pair_neg(x):
    return (x, -x)


def _rep(x):
    return [x] * (x % 3)


def _as_list(p):
    return [list(p)]


def _req(cond, msg):
    if not cond:
        raise Violation(msg)


def e2e_witness(model):
    """one (constructor, scheduler) combination per witness, chosen by the model"""
    vals = [v for k, v in sorted(model.items()) if k[0] in "xyzw" and k[1:].isdigit()]
    vals = [max(-40, min(40, v)) for v in vals]
    seq = (vals + [v + 1 for v in vals] + [3, -1, 0, 2, 3, 7])[:14]
    pick = sum(model.values()) + len(model)
    bags = _e2e_bags(seq)
    label, mkb, ref = bags[pick % len(bags)]
    sched = ("sync", "threads")[(pick // len(bags)) % 2]
    w = f"[{label}, {sched}, seq={ref}]"
    with dask.config.set(scheduler=sched, num_workers=2), warnings.catch_warnings():
        warnings.simplefilter("ignore")
        b = mkb()
        c = dask.compute
        parts = c(b.map_partitions(_as_list))[0]
        got = c(b, b.map(f_affine), b.filter(is_even), b.remove(is_even), b.map_partitions(part_rev), b.map(_pair_neg).pluck(1),
                b.map(_pair_neg).starmap(f_pair), b.map(_rep).flatten(), b.distinct(), b.mean(), b.var(), b.std(), b.var(ddof=1),
                b.accumulate(add, initial=1), db.zip(b, b.map(neg)), db.concat([b, b.map(neg)]),
                b.product(db.from_sequence([1, 2], npartitions=2)), b.join([0, 1, 3], key_mod2),
                b.groupby(key_mod2, shuffle="tasks", max_branch=2), b.groupby(key_mod2, shuffle="disk", npartitions=2, blocksize=2),
                b.groupby(key_mod2, shuffle="tasks"))
        m = sum(ref) / len(ref)
        pv = sum((x - m) ** 2 for x in ref) / len(ref)
        sv = sum((x - m) ** 2 for x in ref) / (len(ref) - 1)
        grp = {}
        for x in ref:
            grp.setdefault(x % 2, []).append(x)
        grp = {k: sorted(v) for k, v in grp.items()}
        want = (ref, [f_affine(x) for x in ref], [x for x in ref if is_even(x)], [x for x in ref if not is_even(x)],
                [x for p in parts for x in reversed(p)], [-x for x in ref], [3 * x for x in ref], [x for x in ref for _ in range(x % 3)])
        names = ("compute", "map", "filter", "remove", "map_partitions", "pluck", "starmap", "flatten")
        for nm, g, wv in zip(names, got, want):
            _req(g == wv, f"{nm} = {g}, Python {wv} {w}")
        (dist, mean, var, std, var1, acc1, zp, cc, prod, jn, g1, g2, g3) = got[8:]
        _req(sorted(dist) == sorted(set(ref)), f"distinct {w}")
        _req(abs(mean - m) < 1e-9, f"mean {w}")
        _req(abs(var - pv) < 1e-6 * max(1, pv) and abs(std - math.sqrt(pv)) < 1e-6 * max(1, pv), f"var/std {var} {std} vs {pv} {w}")
        _req(abs(var1 - sv) < 1e-6 * max(1, sv), f"var(ddof=1) {var1} vs {sv} {w}")
        _req(acc1 == list(itertools.accumulate(ref, initial=1)), f"accumulate initial {w}")
        _req(c(b.accumulate(add))[0] == list(itertools.accumulate(ref)), f"accumulate {w}")
        _req(zp == [(x, -x) for x in ref], f"zip {w}")
        _req(cc == ref + [-x for x in ref], f"concat {w}")
        _req(sorted(prod) == sorted(itertools.product(ref, [1, 2])), f"product {w}")
        _req(sorted(jn) == sorted((o, s) for s in ref for o in [0, 1, 3] if o % 2 == s % 2), f"join {w}")
        for nm, g in (("tasks max_branch=2", g1), ("disk", g2), ("tasks", g3)):
            _req(len(dict(g)) == len(g) and {k: sorted(v) for k, v in g} == grp, f"groupby {nm} = {g} {w}")
        for se in SE:
            got = c(b.sum(split_every=se), b.count(split_every=se), b.max(split_every=se), b.min(split_every=se), b.any(split_every=se),
                    b.all(split_every=se), b.fold(add, initial=0, split_every=se), b.fold(bigger, split_every=se),
                    b.reduction(sum, sum, split_every=se), b.topk(3, split_every=se), b.topk(2, key=neg, split_every=se),
                    b.frequencies(split_every=se), b.foldby(key_mod2, add, 0, split_every=se))
            want = (sum(ref), len(ref), max(ref), min(ref), any(ref), all(ref), sum(ref), max(ref), sum(ref), sorted(ref, reverse=True)[:3],
                    sorted(ref)[:2])
            names = ("sum", "count", "max", "min", "any", "all", "fold", "fold(max)", "reduction", "topk", "topk(key)")
            for nm, g, wv in zip(names, got, want):
                _req(g == wv, f"{nm}(split_every={se}) = {g}, Python {wv} {w}")
            _req(dict(got[11]) == dict(collections.Counter(ref)) and len(got[11]) == len(set(ref)), f"frequencies(split_every={se}) {w}")
            _req(dict(got[12]) == ref_foldby(key_mod2, add, ref, 0), f"foldby(split_every={se}) {w}")
        for m_ in (1, 2, 5, 9):
            r = b.repartition(npartitions=m_)
            _req(r.npartitions == m_ and c(r)[0] == ref, f"repartition({m_}) {w}")
        _req(c(b.repartition(partition_size=64))[0] == ref, f"repartition(partition_size) {w}")
        _req(b.take(3) == tuple(parts[0][:3]), f"take {w}")
        _req(b.take(3, npartitions=-1) == tuple(ref[:3]), f"take all {w}")


# ---------------------------------------------------------------------------


def ob_repartition_counts(nmax):
    """repartition(npartitions=m) of a bag with n one-element partitions for every pair (n, m): the boundary arithmetic int(i * (n / m)) is float
    code, so n and m are solver-enumerated (concretised); exactly m partitions, same elements in the same order"""
    import operator

    def setup(e):
        n = e.int("n", 1, nmax)
        m = e.int("m", 1, nmax + 2)
        return n, m

    def run(e, n, m):
        n, m = operator.index(n), operator.index(m)
        b = db.from_sequence(list(range(100, 100 + 3 * n)), npartitions=n)
        if b.npartitions != n:
            return "skip"
        r = b.repartition(npartitions=m)
        e.check(r.npartitions == m, f"repartition(npartitions={m}) of {n} partitions has {r.npartitions} partitions")
        got = r.compute(scheduler="sync")
        e.check(list(got) == list(range(100, 100 + 3 * n)), f"repartition(npartitions={m}) of {n} partitions lost, duplicated or reordered elements: {len(got)} of {3 * n}")
        return len(got)

    return Obligation(f"repartition_counts[n<={nmax}]", setup, run)


def obligations(tier):
    if tier == "quick":
        P, N = 3, 4          # partitions, elements
        RP = 4               # reductions without forks: 4 partitions so that split_every=3 builds a tree
        FP, FN = 3, 3        # operations whose comparisons fork, hashing operations
        ses = (2, None)      # on <= 3 partitions split_every=3 builds the same graph as None
        st = (2, 3, -1, 2)
    else:
        P, N = 5, 5
        RP = 6
        FP, FN = 4, 4
        ses = SE
        st = (3, 4, -2, 2)
    return [
        ob_map(P, N), ob_starmap(P, N), ob_filter(FP, FN), ob_map_partitions(P, N),
        ob_flatten(P, min(N, 4)), ob_fold(RP, N, SE), ob_fold_initial(RP, N, SE),
        ob_maxmin(FP, FN, ses), ob_anyall(FP, FN, ses), ob_accumulate(P, N), ob_take(P, N), ob_topk(FP, FN, ses), ob_repartition(P, N),
        ob_zip_concat(P, N), ob_distinct(FP, FN, 0, 2, ses), ob_distinct_key(FP, FN), ob_foldby(FP, FN, ses), ob_groupby(FP, FN),
        ob_join(FP, FN), ob_stats(*st), ob_repartition_counts(16 if tier == "quick" else 40),
    ]
