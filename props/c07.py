"""C07 -- topological sort and cycle detection are correct"""
from __future__ import annotations

from symx.core import Violation
from symx.run import Obligation

import dask.core as C

PROPERTY = "C07"
LEVEL = "other"
BUDGET = {"quick": 120, "thorough": 1500}
EXPLANATION = (
    "The real dask.core.toposort / getcycle / isdag (all backed by _toposort) are executed on every directed graph with N "
    "nodes given as an adjacency bit matrix (self-loops included) and, for getcycle/isdag, every subset of start "
    "keys (also the empty list; a single key passed bare; key names either strings or the falsy-but-legal keys 0, '', ()), both through the `dependencies=` argument and as real legacy graphs. Assertions: toposort returns every key exactly "
    "once with dependencies first and raises RuntimeError iff the graph is cyclic (oracle: independent reachability closure); "
    "getcycle returns [] iff no cycle is reachable from the start keys, otherwise a list whose consecutive elements are real "
    "dependency edges, that closes (first == last) and is reachable from the keys; isdag == not getcycle. Inputs carry no "
    "arithmetic: the solver enumerates the adjacency bits and proves the enumeration complete.")
ASSUMPTIONS = ["graphs are solver-enumerated adjacency matrices (bounded exhaustive)"]
STUBS = []
ENUM = ["adjacency bits, start-key subset, graph representation"]
OUTSIDE = ["graphs with more nodes than the bound"]
BOUNDS = {"quick": dict(nodes="<=3 (all digraphs incl. self-loops), 4 (no self-loops, toposort only)", start_keys="every non-empty subset"),
          "thorough": dict(nodes="toposort: <=4 incl. self-loops; getcycle/isdag: <=3 incl. self-loops, 4 without self-loops; dependency iteration orders: 3 nodes", start_keys="every subset incl. empty")}


def functions():
    return [C._toposort, C.toposort, C.getcycle, C.isdag]


def f(*a):
    return a


def gen(e, N, loops=True):
    adj = {i: set() for i in range(N)}
    for i in range(N):
        for j in range(N):
            if i == j and not loops:
                continue
            if e.flag(f"d{i}_{j}"):
                adj[i].add(j)        # i depends on j
    return adj


def closure(adj):
    reach = {i: set(adj[i]) for i in adj}
    changed = True
    while changed:
        changed = False
        for i in adj:
            new = set(reach[i])
            for j in list(reach[i]):
                new |= reach[j]
            if new != reach[i]:
                reach[i] = new
                changed = True
    return reach


def mk_toposort(N, loops=True):
    def setup(e):
        adj = gen(e, N, loops)
        legacy = e.flag("as_graph")
        return adj, legacy

    def run(e, adj, legacy):
        reach = closure(adj)
        cyclic = any(i in reach[i] for i in adj)
        keys = {i: f"k{i}" for i in adj}
        if legacy:
            dsk = {keys[i]: (f,) + tuple(keys[j] for j in sorted(adj[i])) for i in adj}
            call = lambda: C.toposort(dsk)
        else:
            dsk = {keys[i]: (f,) for i in adj}
            deps = {keys[i]: {keys[j] for j in adj[i]} for i in adj}
            call = lambda: C.toposort(dsk, dependencies=deps)
        try:
            out = call()
        except RuntimeError:
            e.check(cyclic, "RuntimeError on an acyclic graph")
            return "RuntimeError"
        e.check(not cyclic, f"cyclic graph sorted: {out}")
        e.check(sorted(out) == sorted(keys.values()), "toposort does not return every key exactly once")
        pos = {k: n for n, k in enumerate(out)}
        for i in adj:
            for j in adj[i]:
                e.check(pos[keys[j]] < pos[keys[i]], f"{keys[i]} placed before its dependency {keys[j]}")
        return out

    return Obligation(f"toposort[N={N},loops={loops}]", setup, run)


def _perms(xs):
    if len(xs) <= 1:
        return [list(xs)]
    out = []
    for i in range(len(xs)):
        for rest in _perms(xs[:i] + xs[i + 1:]):
            out.append([xs[i]] + rest)
    return out


def mk_ordered(N):
    """iteration order of every dependency collection is a solver choice (set iteration order depends on the
    interpreter's hash seed, so it is part of the input space)"""
    def setup(e):
        adj = gen(e, N, False)
        order = {}
        for i in range(N):
            ps = _perms(sorted(adj[i]))
            order[i] = ps[e.choice(f"perm{i}", len(ps))]
        return adj, order

    def run(e, adj, order):
        reach = closure(adj)
        cyclic = any(i in reach[i] for i in adj)
        dsk = {i: (f,) for i in adj}
        deps = {i: list(order[i]) for i in adj}
        try:
            out = C.toposort(dsk, dependencies=deps)
        except RuntimeError:
            e.check(cyclic, "RuntimeError on an acyclic graph")
            cyc = C.getcycle(dsk, list(dsk)) if False else None
            return "RuntimeError"
        e.check(not cyclic, f"cyclic graph sorted: {out}")
        e.check(sorted(out) == sorted(adj), "toposort does not return every key exactly once")
        pos = {k: n for n, k in enumerate(out)}
        for i in adj:
            for j in adj[i]:
                e.check(pos[j] < pos[i], f"{i} placed before its dependency {j}")
        return out

    return Obligation(f"toposort_ordered[N={N}]", setup, run)


class HK:
    """key whose hash is chosen by the solver: the iteration order of every *set* of keys (dependency sets,
    dask's internal `seen`/`inplay`/dependents sets) then follows the chosen hash values, independently of the
    dict insertion order -- this makes the interpreter's hash-seed-dependent set order part of the explored input"""
    __slots__ = ("i", "h")

    def __init__(self, i, h):
        self.i, self.h = i, h

    def __hash__(self):
        return self.h

    def __eq__(self, o):
        return isinstance(o, HK) and o.i == self.i

    def __lt__(self, o):
        return self.i < o.i

    def __repr__(self):
        return f"K{self.i}"


def mk_hashed(N, what):
    def setup(e):
        adj = gen(e, N, False)
        ps = _perms(list(range(N)))
        perm = ps[e.choice("hashperm", len(ps))]
        return adj, perm

    def run(e, adj, perm):
        reach = closure(adj)
        cyclic = any(i in reach[i] for i in adj)
        K = [HK(i, perm[i]) for i in range(N)]
        dsk = {K[i]: (f,) for i in adj}
        deps = {K[i]: {K[j] for j in adj[i]} for i in adj}
        if what == "toposort":
            try:
                out = C.toposort(dsk, dependencies=deps)
            except RuntimeError:
                e.check(cyclic, "RuntimeError on an acyclic graph")
                return "RuntimeError"
            e.check(not cyclic, f"cyclic graph sorted: {out}")
            e.check(len(out) == N and set(out) == set(K), "toposort does not return every key exactly once")
            pos = {k: n for n, k in enumerate(out)}
            for i in adj:
                for j in adj[i]:
                    e.check(pos[K[j]] < pos[K[i]], f"{K[i]} placed before its dependency {K[j]}")
            return [k.i for k in out]
        legacy = {K[i]: (f,) + tuple(K[j] for j in sorted(adj[i])) for i in adj}
        cyc = C.getcycle(legacy, list(legacy))
        if not cyclic:
            e.check(cyc == [], "cycle reported in an acyclic graph")
            return "acyclic"
        e.check(len(cyc) >= 2 and cyc[0] == cyc[-1], f"getcycle result {cyc} does not close")
        fw = all(b.i in adj[a.i] for a, b in zip(cyc, cyc[1:]))
        bw = all(a.i in adj[b.i] for a, b in zip(cyc, cyc[1:]))
        e.check(fw or bw, f"{cyc} is not a directed cycle")
        return "cyclic"

    return Obligation(f"{what}_sethash[N={N}]", setup, run)


FALSY = (0, "", (), "k3")


def mk_getcycle(N, loops=True):
    def setup(e):
        adj = gen(e, N, loops)
        start = [i for i in range(N) if e.flag(f"s{i}")]      # may be empty: getcycle(d, []) asks about nothing
        single = e.flag("single_key") if len(start) == 1 else False
        falsy = e.flag("falsy_keys")
        return adj, start, single, falsy

    def run(e, adj, start, single, falsy):
        reach = closure(adj)
        # key names: ordinary strings, or the falsy-but-legal keys 0, "", () (a truthiness test on `keys` must not confuse them with "no keys given")
        keys = {i: (FALSY[i] if falsy else f"k{i}") for i in adj}
        dsk = {keys[i]: (f,) + tuple(keys[j] for j in sorted(adj[i])) for i in adj}
        arg = keys[start[0]] if single else [keys[i] for i in start]
        reachable = set(start)
        for i in start:
            reachable |= reach[i]
        has_cycle = any(i in reach[i] for i in reachable)
        cyc = C.getcycle(dsk, arg)
        dag = C.isdag(dsk, arg)
        e.check(dag == (not cyc), "isdag disagrees with getcycle")
        if not has_cycle:
            e.check(cyc == [], f"getcycle reports {cyc} but no cycle is reachable from {arg}")
            return "acyclic"
        e.check(len(cyc) >= 2 and cyc[0] == cyc[-1], f"getcycle result {cyc} does not close")
        inv = {v: k for k, v in keys.items()}
        for a, b in zip(cyc, cyc[1:]):
            ia, ib = inv[a], inv[b]
            e.check(ib in adj[ia] or ia in adj[ib], f"{a}->{b} is not a dependency edge")
        # orientation must be consistent (all along dependencies or all along dependents)
        fw = all(inv[b] in adj[inv[a]] for a, b in zip(cyc, cyc[1:]))
        bw = all(inv[a] in adj[inv[b]] for a, b in zip(cyc, cyc[1:]))
        e.check(fw or bw, f"{cyc} is not a directed cycle")
        for a in cyc:
            e.check(inv[a] in reachable, f"{a} is not reachable from {arg}")
        return "cyclic"

    return Obligation(f"getcycle[N={N},loops={loops}]", setup, run)


def obligations(tier):
    if tier == "quick":
        return [mk_toposort(1), mk_toposort(2), mk_toposort(3), mk_toposort(4, loops=False), mk_ordered(3), mk_hashed(3, 'toposort'), mk_hashed(4, 'toposort'), mk_hashed(3, 'getcycle'), mk_getcycle(2), mk_getcycle(3)]
    return [mk_toposort(1), mk_toposort(2), mk_toposort(3), mk_toposort(4), mk_ordered(3), mk_hashed(3, 'toposort'), mk_hashed(4, 'toposort'), mk_hashed(4, 'getcycle'), mk_getcycle(2), mk_getcycle(3), mk_getcycle(4, loops=False)]
