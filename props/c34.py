"""C34 -- array creation routines are chunk-invariant and equal NumPy (integer kernels).

Kernels: dask.array.creation.arange (integer arguments), eye, diag, diagonal, tri and dask.array.wrap (ones/zeros/full ...).
"""
from __future__ import annotations

import itertools
import math
from functools import partial

import numpy as np

from symx.core import SInt, SRatio, Violation, HarnessError
from symx.patch import patched, math_shim, ModuleShim, INT_SHIM, _isnan
from symx.run import Obligation

import dask
import dask.array as da
import dask.array.core as AC
import dask.array.chunk as CH
import dask.array.creation as CR
import dask.array.wrap as W
import dask.utils as U
from dask._task_spec import Task, TaskRef, Alias, DataNode

PROPERTY = "C34"
LEVEL = "other"
BUDGET = {"quick": 150, "thorough": 1500}
EXPLANATION = ""
ASSUMPTIONS = []
STUBS = []
ENUM = []
OUTSIDE = []
BOUNDS = {"quick": {}, "thorough": {}}


def functions():
    return [CR.arange, CR.eye, CR.diag, CR.diagonal, CR.tri, CH.arange, W._parse_wrap_args, W.wrap_func_shape_as_first_arg]


# ----------------------------------------------------------------------------- patches


def _sym(x):
    return isinstance(x, (SInt, SRatio))


def _plain(x):
    """SInt built by `type(start)(0)` in arange's dtype inference carries a plain int"""
    if isinstance(x, SInt) and isinstance(x.z, int):
        return x.z
    return x


def _np_shim():
    def ceil(x):
        if _sym(x):
            return math.ceil(x)
        return np.ceil(x)

    def isclose(a, b, *args, **kw):
        # np.isclose(a, b, atol=0) of two Python ints that are equal is True whatever their size; unequal ones are
        # concretised and handed to NumPy
        if _sym(a) or _sym(b):
            if a == b:
                return True
            return np.isclose(int(a.__index__() if isinstance(a, SInt) else a), int(b.__index__() if isinstance(b, SInt) else b), *args, **kw)
        return np.isclose(a, b, *args, **kw)

    def arange(*args, **kw):
        # only used by dask's arange for dtype inference: np.arange(type(start)(0), type(stop)(0), step).dtype
        return np.arange(*[(_plain(a).__index__() if isinstance(_plain(a), SInt) else _plain(a)) for a in args], **kw)

    return ModuleShim(np, isnan=_isnan(np.isnan), ceil=ceil, isclose=isclose, arange=arange)


def _tok(*a, **k):
    return "symx"


def _patches():
    ms = math_shim()
    nps = _np_shim()
    return patched((AC, "int", INT_SHIM), (AC, "math", ms), (AC, "np", nps),
                   (CR, "int", INT_SHIM), (CR, "np", nps), (CR, "tokenize", _tok),
                   (W, "tokenize", _tok))


def _clear():
    U._cumsum.cache_clear()
    U._max.cache_clear()
    AC.normalize_chunks_cached.cache_clear()


def _tot(seq):
    t = 0
    for c in seq:
        t = t + c
    return t


def _starts(seq):
    out = [0]
    for c in seq:
        out.append(out[-1] + c)
    return out


def _rlen(e, start, stop, step):
    """len(range(start, stop, step)) for a concrete non-zero step; no forking"""
    if step > 0:
        return e.ite(lambda: start < stop, (stop - start + step - 1) // step, 0)
    return e.ite(lambda: stop < start, (start - stop - step - 1) // (-step), 0)


def _graph(arr):
    return dict(arr.__dask_graph__())


def _keys_ok(e, g, arr, what):
    want = set(itertools.product([arr.name], *[range(len(c)) for c in arr.chunks]))
    have = {k for k in g if isinstance(k, tuple) and k and k[0] == arr.name}
    e.check(have == want, f"{what}: the graph's block keys are not the grid its lazy chunks declare "
                          f"(missing {sorted(want - have)[:3]}, extra {sorted(have - want)[:3]})")


# ----------------------------------------------------------------------------- (1) arange

FORMS = ("start_stop_step", "stop", "start_stop")


def _arange_call(form, start, stop, step, c):
    if form == "stop":
        return da.arange(stop, chunks=c)
    if form == "start_stop":
        return da.arange(start, stop, chunks=c)
    return da.arange(start, stop, step, chunks=c)


def _arange_blocks(e, arr, g, what):
    """interpret the tasks of a 1-d array produced by dask's arange: [(first, step, count)] per block.
    chunk.arange(start, stop, step, length, dtype) is np.arange(start, stop, step, dtype) with the last element dropped when it
    is longer than `length`; for integers np.arange(a, b, s) is range(a, b, s)."""
    out = []
    for i in range(len(arr.chunks[0])):
        t = g[(arr.name, i)]
        e.check(isinstance(t, Task) and isinstance(t.func, partial) and t.func.func is CH.arange and len(t.args) == 5,
                f"{what}: block task is not chunk.arange(start, stop, step, length, dtype)")
        bstart, bstop, bstep, blen, bdtype = t.args
        e.check(isinstance(bstep, int) and not isinstance(bstep, bool) and bstep != 0, f"{what}: block step is not a non-zero int")
        L = _rlen(e, bstart, bstop, bstep)
        n = e.ite(lambda: L > blen, L - 1, L)
        if e.mode == "native":
            got = t()
            ref = np.array([bstart + q * bstep for q in range(n)], dtype=bdtype)
            e.check(got.dtype == ref.dtype and got.shape == ref.shape and bool((got == ref).all()),
                    f"{what}: interpretation of the block task differs from executing it")
        out.append((bstart, bstep, n, bdtype))
    return out


def mk_arange(R, cmax, steps):
    def setup(e):
        form = e.pick("form", FORMS)
        step = e.pick("step", steps) if form == "start_stop_step" else 1
        start = e.int("start", -R, R) if form != "stop" else 0
        stop = e.int("stop", -R, R)
        c = e.int("c", 1, cmax)
        p = e.int("p", 0, 2 * R)
        return form, start, stop, step, c, p

    def run(e, form, start, stop, step, c, p):
        _clear()
        arr = _arange_call(form, start, stop, step, c)
        g = _graph(arr)
        n_ref = _rlen(e, start, stop, step)
        e.check(len(arr.chunks) == 1, "arange is not 1-d")
        chunks = arr.chunks[0]
        _keys_ok(e, g, arr, "arange")
        want_dtype = np.arange(start, stop, step).dtype if e.mode == "native" else np.dtype(np.int_)
        e.check(arr.dtype == want_dtype, f"dtype {arr.dtype} differs from NumPy's {want_dtype}")
        e.check(lambda: e.equal(_tot(chunks), n_ref), "lazy chunks do not add up to len(range(start, stop, step))")
        blocks = _arange_blocks(e, arr, g, "arange")
        offs = _starts(chunks)
        for k, (b0, bs, n, dt) in enumerate(blocks):
            e.check(bs == step, "block step differs from step")
            e.check(dt == want_dtype, "block dtype differs from NumPy's")
            e.check(lambda: e.equal(n, chunks[k]), "a block produces a different number of elements than its lazy chunk size")
            if k == 0:
                e.check(lambda: e.equal(b0, start) | e.equal(n, 0), "the first block does not start at `start`")
            else:
                pb0, _, pn, _ = blocks[k - 1]
                e.check(lambda: e.equal(b0, pb0 + pn * step), "a block does not start where the previous one stopped")
            # pointwise: element p of NumPy's progression is element p - offs[k] of the block the lazy chunks put it in
            e.check(lambda: e.implies((p < n_ref) & (offs[k] <= p) & (p < offs[k + 1]),
                                      e.equal(b0 + (p - offs[k]) * bs, start + p * step)),
                    "element p of the progression is not at its place in the block the lazy chunks assign it to")
        _clear()
        return [tuple(chunks), [(b[0], b[2]) for b in blocks]]

    def e2e(model):
        form = FORMS[model.get("form", 0)]
        step = steps[model.get("step", 0)] if form == "start_stop_step" else 1
        start = model.get("start", 0)
        stop, c = model["stop"], model["c"]
        _e2e_arange(form, start, stop, step, c)

    return Obligation(f"arange[|start|,|stop|<={R},c<={cmax},steps={list(steps)}]", setup, run, patches=_patches, e2e=e2e, e2e_every=3)


def _cmp(tag, d, ref, chunks_sum=True):
    """public-API witness: values, dtype, shape, chunk sums"""
    if tuple(sum(c) for c in d.chunks) != tuple(ref.shape) or d.shape != ref.shape:
        raise Violation(f"{tag}: lazy chunks {d.chunks} do not add up to NumPy's shape {ref.shape}")
    if d.dtype != ref.dtype:
        raise Violation(f"{tag}: lazy dtype {d.dtype} differs from NumPy's {ref.dtype}")
    got = d.compute(scheduler="sync")
    if got.dtype != ref.dtype:
        raise Violation(f"{tag}: computed dtype {got.dtype} differs from NumPy's {ref.dtype}")
    if got.shape != ref.shape or not np.array_equal(got, ref, equal_nan=True):
        raise Violation(f"{tag}: values differ from NumPy's")


def _e2e_arange(form, start, stop, step, c):
    ref = {"stop": lambda: np.arange(stop), "start_stop": lambda: np.arange(start, stop)}.get(form, lambda: np.arange(start, stop, step))()
    _cmp(f"arange({form}, {start}, {stop}, {step}, chunks={c})", _arange_call(form, start, stop, step, c), ref)


# ----------------------------------------------------------------------------- (2) eye


def mk_eye(nmax, cmax, kmax):
    def setup(e):
        N = e.int("N", 0, nmax)
        M = None if e.flag("M_none") else e.int("M", 0, nmax)
        c = e.int("c", 1, cmax)
        k = e.int("k", -kmax, kmax)
        r = e.int("r", 0, nmax)
        q = e.int("q", 0, nmax)
        return N, M, c, k, r, q

    def run(e, N, M, c, k, r, q):
        _clear()
        Mx = N if M is None else M
        if M is None:
            arr = da.eye(N, chunks=c, k=k, dtype=int)
        else:
            arr = da.eye(N, chunks=c, M=M, k=k, dtype=int)
        g = _graph(arr)
        e.check(len(arr.chunks) == 2, "eye is not 2-d")
        vch, hch = arr.chunks
        e.check(lambda: e.equal(_tot(vch), N) & e.equal(_tot(hch), Mx), "lazy chunks do not add up to (N, M)")
        e.check(arr.dtype == np.eye(1, dtype=int).dtype, "dtype")
        _keys_ok(e, g, arr, "eye")
        r0, c0 = _starts(vch), _starts(hch)
        obs = []
        for i in range(len(vch)):
            for j in range(len(hch)):
                t = g[(arr.name, i, j)]
                e.check(isinstance(t, Task), "block is not a task")
                inblk = lambda: (r < N) & (q < Mx) & (r0[i] <= r) & (r < r0[i + 1]) & (c0[j] <= q) & (q < c0[j + 1])
                if t.func is np.eye:
                    bn, bm, bk, bdt = t.args
                    e.check(lambda: e.equal(bn, vch[i]) & e.equal(bm, hch[j]), "block shape differs from its lazy chunk sizes")
                    # NumPy: eye(n, m, kk)[a, b] == 1 iff b - a == kk
                    e.check(lambda: e.implies(inblk(), e.equal((q - c0[j]) - (r - r0[i]), bk) == e.equal(q - r, k)),
                            "element (r, q) of its block is 1 although q - r != k, or 0 although q - r == k")
                    obs.append(("eye", bk))
                elif t.func is np.zeros:
                    (shp, bdt) = t.args
                    e.check(lambda: e.equal(shp[0], vch[i]) & e.equal(shp[1], hch[j]), "block shape differs from its lazy chunk sizes")
                    e.check(lambda: e.implies(inblk(), ~e.equal(q - r, k)), "an all-zero block contains a position of the k-th diagonal")
                    obs.append(("zeros",))
                else:
                    e.check(False, "block task is neither np.eye nor np.zeros")
                e.check(np.dtype(bdt) == arr.dtype, "block dtype")
                if e.mode == "native":
                    got = t()
                    e.check(got.shape == (vch[i], hch[j]), "executed block shape")
        _clear()
        return [tuple(vch), tuple(hch), obs]

    def e2e(model):
        N, c, k = model["N"], model["c"], model["k"]
        M = None if model.get("M_none") else model["M"]
        for dt in (float, int, None):
            _cmp(f"eye({N}, chunks={c}, M={M}, k={k}, dtype={dt})", da.eye(N, chunks=c, M=M, k=k, dtype=dt), np.eye(N, M, k, dtype=dt or float))

    return Obligation(f"eye[N,M<={nmax},c<={cmax},|k|<={kmax}]", setup, run, patches=_patches, e2e=e2e, e2e_every=3)


def obligations(tier):
    obs = []
    if tier == "quick":
        obs.append(mk_arange(8, 9, (1, 2, 3, -1, -2, -3)))
        obs.append(mk_eye(6, 7, 8))
    else:
        obs.append(mk_arange(12, 13, (1, 2, 3, 4, -1, -2, -3, -4)))
        obs.append(mk_eye(9, 10, 12))
    return obs
