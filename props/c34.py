"""C34 -- array creation routines are chunk-invariant and equal NumPy (integer kernels).

Kernels: dask.array.creation.arange (integer arguments), eye, diag, diagonal, tri and dask.array.wrap (ones/zeros/full ...).
"""
from __future__ import annotations

import itertools
import math
from functools import partial

import numpy as np

from symx.core import SInt, SRatio, SBool, Violation
from symx.patch import patched, math_shim, ModuleShim, INT_SHIM, _isnan
from symx.run import Obligation

import dask.array as da
import dask.array.core as AC
import dask.array.chunk as CH
import dask.array.creation as CR
import dask.array.wrap as W
import dask.utils as U
from dask._task_spec import Task, TaskRef, DataNode

PROPERTY = "C34"
LEVEL = "other"
BUDGET = {"quick": 150, "thorough": 1500}
EXPLANATION = (
    "Bounded symbolic execution of the per-block integer arithmetic of dask's array creation routines; the REAL public functions are called "
    "with symbolic Python ints and the tasks of the graph they return are interpreted with NumPy's definition of the task's function. "
    "(1) da.arange(start, stop, step, chunks=c) with symbolic integer start, stop, chunk size c (step a solver-enumerated constant; the forms "
    "arange(stop), arange(start, stop), arange(start, stop, step)): the keys of the graph are exactly the grid the lazy chunks declare; every "
    "block task is chunk.arange(b0, b1, step, length, dtype) whose element count (len(range(b0, b1, step)), trimmed to length) equals its lazy "
    "chunk size; block 0 starts at start, block k starts where block k-1 stopped; lazy chunks add up to len(range(start, stop, step)); for a "
    "symbolic probe index p, element p of NumPy's progression start + p*step sits in the block the lazy chunks assign it to, at offset p - "
    "sum(previous chunks); dtype is NumPy's. Two value regimes: small values with any number of blocks, and |start|,|stop| <= 1000 (10**6 "
    "thorough) with a bounded number of blocks. (2) da.eye(N, chunks=c, M, k) with symbolic N, M (or None), c, k and a symbolic probe (r, q): "
    "graph keys == declared grid, lazy chunks add up to (N, M), block shapes equal lazy chunk sizes, and the block containing (r, q) -- np.eye(n, "
    "m, kk) or np.zeros -- has a one at the probe iff q - r == k. (3) da.tri(N, M, k, chunks) with enumerated sizes / chunk specs and symbolic k "
    "(|k| <= 10**6): the two operands tri hands to greater_equal are recorded; the column operand (dask's arange(-k, M-k), symbolic block "
    "starts) is interpreted block by block and (rows[r] >= cols[q]) == (q <= r + k) is decided for every (r, q). da.diag(v, k) for a 1-d dask "
    "vector with symbolic chunk sizes (>= 0, unbounded), symbolic k and probe (r, q): the k == 0 graph (np.diag of block i on the block diagonal, "
    "zeros_like elsewhere, shapes == lazy chunks) and the pad widths used for k != 0 place v[i] at [i + max(0,-k), i + max(0,k)] and zeros "
    "elsewhere, shape (n+|k|)**2. da.diag of a 2-d array with equal symbolic row/column chunks (block-diagonal shortcut): element t is v[t, t]. "
    "da.diagonal (NumPy integer arithmetic: np.cumsum / comparisons on arrays, so everything is solver-enumerated): for every offset and axis pair, "
    "each output block's np.diagonal(block, kk, a1, a2) task reads exactly the elements NumPy's definition names, block diagonal lengths equal "
    "the lazy chunks, lazy chunks add up to NumPy's shape. (4) da.ones / zeros / full / empty with symbolic shape and chunk sizes: lazy chunks add "
    "up to the shape and every block is created with exactly its lazy chunk shape. Path trees exhausted, every path model replayed natively "
    "(block tasks are executed and compared with their interpretation), and pushed end-to-end through the public API against NumPy (values, "
    "dtype, shape, chunk sums) together with linspace, fractional (dyadic) arange, indices, meshgrid, fromfunction, tri, *_like with the model's sizes.")
ASSUMPTIONS = [
    "np.arange(a, b, s) for Python ints is range(a, b, s); np.eye(n, m, k)[a, b] == 1 iff b - a == k; np.diag(x)[a, b] = x[a] iff a == b; "
    "np.diagonal(x, k, a1, a2)[t] = x[.., max(0,-k)+t, .., max(0,k)+t, ..]; np.tri(N, M, k)[r, q] == 1 iff q <= r + k (NumPy's documented "
    "definitions; the arange interpretation is validated by executing every block task natively on every path model, the others by the e2e witnesses)",
    "arange's step is a solver-enumerated constant (step * symbolic block offset would be non-linear otherwise)",
    "int/int true division ((stop - start) / step) is kept as the exact rational while operands are < 2**53 (DESIGN.md lemma); np.ceil of it is the exact ceiling",
    "np.isclose(a, b, atol=0) of two equal Python ints is True (arange's precision guard `start + step - start` vs `step`: identical integers)",
    "graph/array names do not influence values: tokenize in dask.array.creation / dask.array.wrap returns a per-path counter string during the symbolic run",
    "tri: dask.array.ufunc.greater_equal and Array.astype are what their names say (recorded, not executed, in the symbolic run; the e2e witness executes them); "
    "diag with k != 0: da.pad(mode='constant') pads with zeros by the given widths (recorded; executed by the e2e witness)",
]
STUBS = ["dask.array.core.{int, math, np} shims (normalize_chunks: int -> ShimInt, isnan/ceil accept symbolic ints)",
         "dask.array.creation.{int -> ShimInt, np -> shim: ceil (exact ratio), isclose (equal ints), arange (dtype inference with type(start)(0)), isnan}",
         "dask.array.creation.tokenize and dask.array.wrap.tokenize -> per-path counter (hashing would concretise every symbolic argument)",
         "dask.array.creation.greater_equal -> recorder (tri), dask.array.creation.pad -> recorder (diag with k != 0); in both symbolic and native runs",
         "input arrays of diag are dask Arrays built by the harness from Task(block builder, offset, size) with symbolic chunk sizes",
         "functools caches dask.utils._cumsum / _max and normalize_chunks_cached cleared per path"]
ENUM = ["arange: call form, step, number of blocks (normalize_chunks multiplies a tuple by num // c)",
        "eye / ones / zeros / full: number of blocks per axis", "diag: number of blocks (1..3 quick, 1..4 thorough)",
        "tri: N, M, chunk spec (only k is symbolic: reshape / transpose / blockwise need concrete sizes)",
        "diagonal and diag of a 2-d array with k != 0 or unequal chunks: every input (shape, chunks, offset, axes) -- NumPy integer arithmetic concretises; "
        "offsets and axis pairs are looped inside one path",
        "linspace, arange with fractional steps or an explicit dtype, indices, meshgrid, fromfunction, ones_like / zeros_like / full_like / empty_like, "
        "tri's and diag's lazy chunks: covered ONLY by the solver-enumerated e2e witnesses (one per k-th path model, with the model's sizes)"]
OUTSIDE = ["fractional arange steps beyond the solver-enumerated cases of arange_fractional[...] (float length rounding: no symbolic claim; values compared at 1e-12 relative)",
           "linspace: float step and per-block start accumulation; witnesses compare shape, dtype, chunk sums exactly and values within 8 eps of the end points' magnitude "
           "(dask differs from np.linspace by 1 ulp for non-dyadic steps, e.g. linspace(-3, -2, 3, endpoint=False, chunks=1)); retstep for num < 2 (dask returns a finite step, NumPy nan)",
           "chunks='auto' / byte strings (C23), like= / non-NumPy backends, unknown chunk sizes, dask-array arguments to linspace",
           "more than the listed number of blocks in the wide-range obligations; tri with symbolic sizes",
           "the ufunc / reshape / transpose / pad / broadcast machinery that tri, diag(k != 0), indices, meshgrid, fromfunction are composed of (other properties)",
           "repeat, tile, pad modes"]
BOUNDS = {
    "quick": dict(arange="(a) start, stop in [-8, 8], c in [1, 9], step in +-{1,2,3}, any number of blocks (<= 16); (b) start, stop in [-1000, 1000], c in [1, 2001], "
                         "step in +-{1,2,3,7}, <= 4 blocks; probe p symbolic",
                  eye="(a) N, M in [0, 6] (M may be None), c in [1, 7], k in [-8, 8]; (b) N, M in [0, 300], c in [1, 301], k in [-700, 700], <= 3 blocks per axis; probe (r, q) symbolic",
                  tri="N, M in 0..4 (M may be None), 9 chunk specs, k symbolic in [-10**6, 10**6]",
                  diag="1-d: 1..3 blocks, chunk sizes >= 0 unbounded, k in [-1000, 1000], probe unbounded; 2-d shortcut: 1..3 blocks, sizes >= 0 unbounded",
                  diagonal="2-d: N, M in 0..4, 5 chunk pairs, offsets -5..5, 3 axis pairs; 3-d (N,3,M): N, M in 0..2, 3 chunk pairs, offsets -3..3, 5 axis pairs",
                  wrap="1-d: s in [0, 8], c in [1, 9]; 2-d: s in [0, 4], c in [1, 5]; ones, zeros, full, empty"),
    "thorough": dict(arange="(a) start, stop in [-16, 16], c in [1, 17], step in +-{1..5}; (b) start, stop in [-10**6, 10**6], c <= 2*10**6+1, step in +-{1,2,3,7,10}, <= 6 blocks",
                     eye="(a) N, M in [0, 9], c in [1, 10], k in [-12, 12]; (b) N, M in [0, 1000], k in [-3000, 3000], <= 4 blocks per axis",
                     tri="N, M in 0..6", diag="1..4 blocks", diagonal="2-d: N, M in 0..6, 8 chunk pairs; 3-d: N, M in 0..3, 8 chunk pairs",
                     wrap="1-d: s <= 12; 2-d: s <= 7; 3-d: s <= 3"),
}


def functions():
    import dask.layers as L
    return [CR.arange, CR.eye, CR.diag, CR.diagonal, CR.tri, CH.arange, W._parse_wrap_args, W.wrap_func_shape_as_first_arg,
            L.ArrayChunkShapeDep.__getitem__, AC.normalize_chunks, AC.blockdims_from_blockshape]


# ----------------------------------------------------------------------------- patches


def _sym(x):
    return isinstance(x, (SInt, SRatio))


def _plain(x):
    """SInt built by `type(start)(0)` in arange's dtype inference carries a plain int"""
    if isinstance(x, SInt) and isinstance(x.z, int):
        return x.z
    return x


def _np_shim():
    def ceil(x):
        if _sym(x):
            return math.ceil(x)
        return np.ceil(x)

    def isclose(a, b, *args, **kw):
        # np.isclose(a, b, atol=0) of two Python ints that are equal is True whatever their size; unequal ones are
        # concretised and handed to NumPy
        if _sym(a) or _sym(b):
            if a == b:
                return True
            return np.isclose(int(a.__index__() if isinstance(a, SInt) else a), int(b.__index__() if isinstance(b, SInt) else b), *args, **kw)
        return np.isclose(a, b, *args, **kw)

    def arange(*args, **kw):
        # only used by dask's arange for dtype inference: np.arange(type(start)(0), type(stop)(0), step).dtype
        return np.arange(*[(_plain(a).__index__() if isinstance(_plain(a), SInt) else _plain(a)) for a in args], **kw)

    return ModuleShim(np, isnan=_isnan(np.isnan), ceil=ceil, isclose=isclose, arange=arange)


_TOK = [0]


def _tok(*a, **k):
    # names only label the graph; a per-path counter keeps the arrays built on one path distinct
    _TOK[0] += 1
    return f"symx{_TOK[0]}"


def _patches():
    ms = math_shim()
    nps = _np_shim()
    return patched((AC, "int", INT_SHIM), (AC, "math", ms), (AC, "np", nps),
                   (CR, "int", INT_SHIM), (CR, "np", nps), (CR, "tokenize", _tok),
                   (W, "tokenize", _tok))


def _clear():
    _TOK[0] = 0
    U._cumsum.cache_clear()
    U._max.cache_clear()
    AC.normalize_chunks_cached.cache_clear()


def _tot(seq):
    t = 0
    for c in seq:
        t = t + c
    return t


def _starts(seq):
    out = [0]
    for c in seq:
        out.append(out[-1] + c)
    return out


def _rlen(e, start, stop, step):
    """len(range(start, stop, step)) for a concrete non-zero step; no forking"""
    if step > 0:
        return e.ite(lambda: start < stop, (stop - start + step - 1) // step, 0)
    return e.ite(lambda: stop < start, (start - stop - step - 1) // (-step), 0)


def _graph(arr):
    return dict(arr.__dask_graph__())


def _keys_ok(e, g, arr, what):
    want = set(itertools.product([arr.name], *[range(len(c)) for c in arr.chunks]))
    have = {k for k in g if isinstance(k, tuple) and k and k[0] == arr.name}
    e.check(have == want, f"{what}: the graph's block keys are not the grid its lazy chunks declare "
                          f"(missing {sorted(want - have)[:3]}, extra {sorted(have - want)[:3]})")


# ----------------------------------------------------------------------------- (1) arange

FORMS = ("start_stop_step", "stop", "start_stop")


def _arange_call(form, start, stop, step, c):
    if form == "stop":
        return da.arange(stop, chunks=c)
    if form == "start_stop":
        return da.arange(start, stop, chunks=c)
    return da.arange(start, stop, step, chunks=c)


def _arange_blocks(e, arr, g, what):
    """interpret the tasks of a 1-d array produced by dask's arange: [(first, step, count)] per block.
    chunk.arange(start, stop, step, length, dtype) is np.arange(start, stop, step, dtype) with the last element dropped when it
    is longer than `length`; for integers np.arange(a, b, s) is range(a, b, s)."""
    out = []
    for i in range(len(arr.chunks[0])):
        t = g[(arr.name, i)]
        e.check(isinstance(t, Task) and isinstance(t.func, partial) and t.func.func is CH.arange and len(t.args) == 5,
                f"{what}: block task is not chunk.arange(start, stop, step, length, dtype)")
        bstart, bstop, bstep, blen, bdtype = t.args
        e.check(isinstance(bstep, int) and not isinstance(bstep, bool) and bstep != 0, f"{what}: block step is not a non-zero int")
        L = _rlen(e, bstart, bstop, bstep)
        n = e.ite(lambda: L > blen, L - 1, L)
        if e.mode == "native":
            got = t()
            ref = (bstart + bstep * np.arange(n, dtype="i8")).astype(bdtype)       # first + q*step for q = 0..n-1
            e.check(got.dtype == ref.dtype and got.shape == ref.shape and bool((got == ref).all()),
                    f"{what}: interpretation of the block task differs from executing it")
        out.append((bstart, bstep, n, bdtype))
    return out


def mk_arange(R, cmax, steps, max_blocks=None, every=5):
    def setup(e):
        form = e.pick("form", FORMS)
        step = e.pick("step", steps) if form == "start_stop_step" else 1
        start = e.int("start", -R, R) if form != "stop" else 0
        stop = e.int("stop", -R, R)
        c = e.int("c", 1, cmax)
        p = e.int("p", 0, 2 * R)
        if max_blocks is not None:
            # wide value ranges: the number of blocks (concretised by normalize_chunks) is bounded instead of the sizes
            e.assume(lambda: _rlen(e, start, stop, step) <= max_blocks * c)
        return form, start, stop, step, c, p

    def run(e, form, start, stop, step, c, p):
        _clear()
        arr = _arange_call(form, start, stop, step, c)
        g = _graph(arr)
        n_ref = _rlen(e, start, stop, step)
        e.check(len(arr.chunks) == 1, "arange is not 1-d")
        chunks = arr.chunks[0]
        _keys_ok(e, g, arr, "arange")
        want_dtype = np.arange(start, stop, step).dtype if e.mode == "native" else np.dtype(np.int_)
        e.check(arr.dtype == want_dtype, f"dtype {arr.dtype} differs from NumPy's {want_dtype}")
        e.check(lambda: e.equal(_tot(chunks), n_ref), "lazy chunks do not add up to len(range(start, stop, step))")
        blocks = _arange_blocks(e, arr, g, "arange")
        offs = _starts(chunks)
        for k, (b0, bs, n, dt) in enumerate(blocks):
            e.check(bs == step, "block step differs from step")
            e.check(dt == want_dtype, "block dtype differs from NumPy's")
            e.check(lambda: e.equal(n, chunks[k]), "a block produces a different number of elements than its lazy chunk size")
            if k == 0:
                e.check(lambda: e.equal(b0, start) | e.equal(n, 0), "the first block does not start at `start`")
            else:
                pb0, _, pn, _ = blocks[k - 1]
                e.check(lambda: e.equal(b0, pb0 + pn * step), "a block does not start where the previous one stopped")
            # pointwise: element p of NumPy's progression is element p - offs[k] of the block the lazy chunks put it in
            e.check(lambda: e.implies((p < n_ref) & (offs[k] <= p) & (p < offs[k + 1]),
                                      e.equal(b0 + (p - offs[k]) * bs, start + p * step)),
                    "element p of the progression is not at its place in the block the lazy chunks assign it to")
        _clear()
        return [tuple(chunks), [(b[0], b[2]) for b in blocks]]

    def e2e(model):
        form = FORMS[model.get("form", 0)]
        step = steps[model.get("step", 0)] if form == "start_stop_step" else 1
        start = model.get("start", 0)
        stop, c = model["stop"], model["c"]
        _e2e_arange(form, start, stop, step, c)
        _e2e_1d(start, stop, step, c, model.get("p", 0))

    nb = "" if max_blocks is None else f",blocks<={max_blocks}"
    return Obligation(f"arange[|start|,|stop|<={R},c<={cmax}{nb},steps={list(steps)}]", setup, run, patches=_patches, e2e=e2e, e2e_every=every)


def _cmp(tag, d, ref, chunks_sum=True):
    """public-API witness: values, dtype, shape, chunk sums"""
    if tuple(sum(c) for c in d.chunks) != tuple(ref.shape) or d.shape != ref.shape:
        raise Violation(f"{tag}: lazy chunks {d.chunks} do not add up to NumPy's shape {ref.shape}")
    if d.dtype != ref.dtype:
        raise Violation(f"{tag}: lazy dtype {d.dtype} differs from NumPy's {ref.dtype}")
    got = d.compute(scheduler="sync")
    if got.dtype != ref.dtype:
        raise Violation(f"{tag}: computed dtype {got.dtype} differs from NumPy's {ref.dtype}")
    if got.shape != ref.shape or not np.array_equal(got, ref, equal_nan=True):
        raise Violation(f"{tag}: values differ from NumPy's")


def _e2e_arange(form, start, stop, step, c):
    ref = {"stop": lambda: np.arange(stop), "start_stop": lambda: np.arange(start, stop)}.get(form, lambda: np.arange(start, stop, step))()
    _cmp(f"arange({form}, {start}, {stop}, {step}, chunks={c})", _arange_call(form, start, stop, step, c), ref)


def _close(tag, d, ref, scale):
    """float-driven routine: shape, dtype, chunk sums exact; values within 8 eps of the magnitude of the end points"""
    if tuple(sum(c) for c in d.chunks) != tuple(ref.shape) or d.shape != ref.shape:
        raise Violation(f"{tag}: lazy chunks {d.chunks} do not add up to NumPy's shape {ref.shape}")
    got = d.compute(scheduler="sync")
    if d.dtype != ref.dtype or got.dtype != ref.dtype:
        raise Violation(f"{tag}: dtype {d.dtype}/{got.dtype} differs from NumPy's {ref.dtype}")
    if got.shape != ref.shape or not bool((np.abs(got - ref) <= 8 * np.finfo(float).eps * scale).all()):
        raise Violation(f"{tag}: values differ from NumPy's by more than 8 eps")


def _e2e_1d(start, stop, step, c, p):
    """witnesses for the float / NumPy driven 1-d routines with the path model's sizes (not part of the symbolic claim)"""
    for dt in ("f8", "i4"):
        _cmp(f"arange({start}, {stop}, {step}, chunks={c}, dtype={dt})", da.arange(start, stop, step, chunks=c, dtype=dt), np.arange(start, stop, step, dtype=dt))
    # dyadic fractional steps and starts: every value and the length computation are exact in binary floating point
    for (s0, st) in ((start, step / 2), (start + 0.5, step * 0.25), (float(start), float(step))):
        _cmp(f"arange({s0}, {stop}, {st}, chunks={c})", da.arange(s0, stop, st, chunks=c), np.arange(s0, stop, st))
    num = p % 9
    scale = max(abs(start), abs(stop), 1)
    for ep in (True, False):
        tag = f"linspace({start}, {stop}, {num}, endpoint={ep}, chunks={c})"
        _close(tag, da.linspace(start, stop, num, endpoint=ep, chunks=c), np.linspace(start, stop, num, endpoint=ep), scale)
        d, dstep = da.linspace(start, stop, num, endpoint=ep, chunks=c, retstep=True)
        r, rstep = np.linspace(start, stop, num, endpoint=ep, retstep=True)
        # for num < 2 NumPy returns step nan where dask returns a finite number (reported; the step is not an array the property speaks about)
        if num >= 2 and dstep != rstep:
            raise Violation(f"{tag}: retstep {dstep} differs from NumPy's {rstep}")
        _close(tag + " retstep", d, r, scale)
    _close(f"linspace({start}, {stop}, {num}, dtype=f4, chunks={c})", da.linspace(start, stop, num, chunks=c, dtype="f4"), np.linspace(start, stop, num, dtype="f4"), scale * 2 ** 30)
    n = len(range(start, stop, step))
    _cmp(f"indices(({n},), chunks=({c},))", da.indices((n,), chunks=(c,)), np.indices((n,)))
    _cmp(f"fromfunction(1-d {n}, chunks={c})", da.fromfunction(lambda i: i * step + start, shape=(n,), chunks=c, dtype=int),
         np.fromfunction(lambda i: i * step + start, (n,), dtype=int))
    x = np.arange(start, stop, step)
    dx = da.arange(start, stop, step, chunks=c)
    _cmp(f"ones_like(arange {n}, chunks={c})", da.ones_like(dx), np.ones_like(x))
    _cmp(f"full_like(arange {n}, chunks={c})", da.full_like(dx, step), np.full_like(x, step))
    _cmp(f"zeros_like(arange {n}, dtype=f4)", da.zeros_like(dx, dtype="f4"), np.zeros_like(x, dtype="f4"))


def _e2e_2d(N, M, c, k):
    """witnesses for the NumPy driven 2-d routines with the path model's sizes (not part of the symbolic claim)"""
    c2 = 1 + abs(k) % 3 if M <= 12 else c       # keep the number of blocks of the witness small
    tag = f"N={N}, M={M}, chunks=({c},{c2})"
    for dt in (int, float):
        _cmp(f"indices({tag}, dtype={dt})", da.indices((N, M), dtype=dt, chunks=(c, c2)), np.indices((N, M), dtype=dt))
    xs, ys = np.arange(N) * 2 + 1, np.arange(M) - k
    dxs, dys = da.from_array(xs, chunks=c), da.from_array(ys, chunks=c2)
    for indexing in ("xy", "ij"):
        for sparse in (False, True):
            got = da.meshgrid(dxs, dys, indexing=indexing, sparse=sparse)
            ref = np.meshgrid(xs, ys, indexing=indexing, sparse=sparse)
            if len(got) != len(ref) or type(got) is not type(ref):
                raise Violation(f"meshgrid({tag}): returns {type(got).__name__} of {len(got)}, NumPy {type(ref).__name__} of {len(ref)}")
            for gi, ri in zip(got, ref):
                _cmp(f"meshgrid({tag}, indexing={indexing}, sparse={sparse})", gi, ri)
    f = lambda i, j: i * 10 + j - k
    for dt in (None, int):
        _cmp(f"fromfunction({tag}, dtype={dt})", da.fromfunction(f, shape=(N, M), chunks=(c, c2), dtype=dt), np.fromfunction(f, (N, M), dtype=dt or float))
    # functions that do NOT combine all coordinate arrays (each coordinate array must already have the full block shape)
    for nm, g in (("i only", lambda i, j: i * 3 - k), ("j only", lambda i, j: j + k), ("shape of i", lambda i, j: np.full(i.shape, 7) + 0 * j.shape[0])):
        _cmp(f"fromfunction({tag}, {nm})", da.fromfunction(g, shape=(N, M), chunks=(c, c2), dtype=int), np.fromfunction(g, (N, M), dtype=int))
    _cmp(f"tri({tag}, k={k})", da.tri(N, M, k, chunks=(c, c2)), np.tri(N, M, k))


# ----------------------------------------------------------------------------- (2) eye


def mk_eye(nmax, cmax, kmax, max_blocks=None, every=4):
    def setup(e):
        N = e.int("N", 0, nmax)
        M = None if e.flag("M_none") else e.int("M", 0, nmax)
        c = e.int("c", 1, cmax)
        k = e.int("k", -kmax, kmax)
        r = e.int("r", 0, nmax)
        q = e.int("q", 0, nmax)
        if max_blocks is not None:
            e.assume(lambda: (N <= max_blocks * c) & ((M if M is not None else 0) <= max_blocks * c))
        return N, M, c, k, r, q

    def run(e, N, M, c, k, r, q):
        _clear()
        Mx = N if M is None else M
        if M is None:
            arr = da.eye(N, chunks=c, k=k, dtype=int)
        else:
            arr = da.eye(N, chunks=c, M=M, k=k, dtype=int)
        g = _graph(arr)
        e.check(len(arr.chunks) == 2, "eye is not 2-d")
        vch, hch = arr.chunks
        e.check(lambda: e.equal(_tot(vch), N) & e.equal(_tot(hch), Mx), "lazy chunks do not add up to (N, M)")
        e.check(arr.dtype == np.eye(1, dtype=int).dtype, "dtype")
        _keys_ok(e, g, arr, "eye")
        r0, c0 = _starts(vch), _starts(hch)
        obs = []
        for i in range(len(vch)):
            for j in range(len(hch)):
                t = g[(arr.name, i, j)]
                e.check(isinstance(t, Task), "block is not a task")
                inblk = lambda: (r < N) & (q < Mx) & (r0[i] <= r) & (r < r0[i + 1]) & (c0[j] <= q) & (q < c0[j + 1])
                if t.func is np.eye:
                    bn, bm, bk, bdt = t.args
                    e.check(lambda: e.equal(bn, vch[i]) & e.equal(bm, hch[j]), "block shape differs from its lazy chunk sizes")
                    # NumPy: eye(n, m, kk)[a, b] == 1 iff b - a == kk
                    e.check(lambda: e.implies(inblk(), e.equal((q - c0[j]) - (r - r0[i]), bk) == e.equal(q - r, k)),
                            "element (r, q) of its block is 1 although q - r != k, or 0 although q - r == k")
                    obs.append(("eye", bk))
                elif t.func is np.zeros:
                    (shp, bdt) = t.args
                    e.check(lambda: e.equal(shp[0], vch[i]) & e.equal(shp[1], hch[j]), "block shape differs from its lazy chunk sizes")
                    e.check(lambda: e.implies(inblk(), _NOT(e.equal(q - r, k))), "an all-zero block contains a position of the k-th diagonal")
                    obs.append(("zeros",))
                else:
                    e.check(False, "block task is neither np.eye nor np.zeros")
                e.check(np.dtype(bdt) == arr.dtype, "block dtype")
                if e.mode == "native":
                    got = t()
                    e.check(got.shape == (vch[i], hch[j]), "executed block shape")
        _clear()
        return [tuple(vch), tuple(hch), obs]

    def e2e(model):
        N, c, k = model["N"], model["c"], model["k"]
        M = None if model.get("M_none") else model["M"]
        for dt in (float, int, None):
            _cmp(f"eye({N}, chunks={c}, M={M}, k={k}, dtype={dt})", da.eye(N, chunks=c, M=M, k=k, dtype=dt), np.eye(N, M, k, dtype=dt or float))
        _cmp(f"eye({N}, M={M}, k={k}) default chunks", da.eye(N, M=M, k=k), np.eye(N, M, k))
        _e2e_2d(N, N if M is None else M, c, k)

    nb = "" if max_blocks is None else f",blocks<={max_blocks}"
    return Obligation(f"eye[N,M<={nmax},c<={cmax},|k|<={kmax}{nb}]", setup, run, patches=_patches, e2e=e2e, e2e_every=every)



# ----------------------------------------------------------------------------- (3a) tri


class _Rec:
    def __init__(self):
        self.calls = []


TRI_SPECS = (1, 2, 3, 4, 5, (1, 2), (3, 2), (2, -1), "auto")


def mk_tri(nmax, kmax, specs):
    sizes = list(range(nmax + 1))

    def setup(e):
        N = e.pick("N", sizes)
        M = None if e.flag("M_none") else e.pick("M", sizes)
        spec = e.pick("spec", specs)
        k = e.int("k", -kmax, kmax)
        return N, M, spec, k

    def run(e, N, M, spec, k):
        _clear()
        Mx = N if M is None else M
        rec = _Rec()

        def ge(a, b):
            rec.calls.append((a, b))
            return rec

        rec.astype = lambda dtype, **kw: (rec.calls.append(np.dtype(dtype)), rec)[1]
        with patched((CR, "greater_equal", ge)):
            res = da.tri(N, M, k, dtype=int, chunks=spec)
        e.check(res is rec and len(rec.calls) == 2 and rec.calls[1] == np.tri(1, dtype=int).dtype,
                "tri is not greater_equal(rows, columns).astype(dtype)")
        a, b = rec.calls[0]
        # left operand: all sizes are concrete, so it is simply computed (row index column)
        av = a.compute(scheduler="sync")
        e.check(av.shape == (N, 1), "row operand is not an (N, 1) column")
        # right operand: dask's arange with a symbolic start -k: interpreted block by block
        e.check(b.shape == (Mx,), "column operand is not of length M")
        gb = _graph(b)
        _keys_ok(e, gb, b, "tri columns")
        blocks = _arange_blocks(e, b, gb, "tri columns")
        offs = _starts(b.chunks[0])
        obs = []
        for j, (b0, bs, n, dt) in enumerate(blocks):
            e.check(lambda: e.equal(n, b.chunks[0][j]), "a column block produces a different number of elements than its lazy chunk size")
            for q in range(offs[j], offs[j + 1]):
                bval = b0 + (q - offs[j]) * bs
                for r in range(N):
                    ar = int(av[r, 0])
                    # NumPy: tri(N, M, k)[r, q] == 1 iff q <= r + k
                    e.check(lambda: (ar >= bval) == (q - r <= k), "greater_equal(rows, columns)[r, q] differs from NumPy's tri: q <= r + k")
            obs.append((b0, n))
        _clear()
        return [tuple(b.chunks[0]), obs]

    def e2e(model):
        N = sizes[model.get("N", 0)]
        M = None if model.get("M_none") else sizes[model.get("M", 0)]
        spec = specs[model.get("spec", 0)]
        k = model["k"]
        for dt in (float, int, bool):
            _cmp(f"tri({N}, {M}, {k}, dtype={dt}, chunks={spec})", da.tri(N, M, k, dtype=dt, chunks=spec), np.tri(N, M, k, dtype=dt))

    return Obligation(f"tri[N,M<={nmax},|k|<={kmax}]", setup, run, patches=_patches, e2e=e2e, e2e_every=3)


# ----------------------------------------------------------------------------- (3b) diag


def _mkblock(off, d):
    return np.arange(off, off + d) + 1


def _mkblock2(r0, nr, c0, nc):
    return (np.arange(r0, r0 + nr)[:, None] + 1) * 100 + (np.arange(c0, c0 + nc)[None, :] + 1)


def _vector(name, ds):
    offs = _starts(ds)
    dsk = {(name, i): Task((name, i), _mkblock, offs[i], ds[i]) for i in range(len(ds))}
    return da.Array(dsk, name, (tuple(ds),), dtype=_mkblock(0, 0).dtype)


def _matrix(name, rs, cs):
    r0, c0 = _starts(rs), _starts(cs)
    dsk = {(name, i, j): Task((name, i, j), _mkblock2, r0[i], rs[i], c0[j], cs[j]) for i in range(len(rs)) for j in range(len(cs))}
    return da.Array(dsk, name, (tuple(rs), tuple(cs)), dtype=_mkblock2(0, 0, 0, 0).dtype)


def _NOT(x):
    return (~x) if isinstance(x, SBool) else (not x)


def _diag0_check(e, D, g, v, n, r, q, np_nonzero, np_idx, what):
    """D = diag(v) with k == 0 (v 1-d with chunks ds).  For the position (r, q) of D (symbolic; only constrained when inside D):
    D[r, q] is v[idx] exactly when np_nonzero (then idx == np_idx) and 0 otherwise."""
    ds = v.chunks[0]
    e.check(len(D.chunks) == 2 and len(D.chunks[0]) == len(ds) and len(D.chunks[1]) == len(ds), f"{what}: wrong block grid")
    e.check(lambda: e.equal(list(D.chunks[0]), list(ds)) & e.equal(list(D.chunks[1]), list(ds)), f"{what}: lazy chunks are not (v.chunks, v.chunks)")
    _keys_ok(e, g, D, what)
    offs = _starts(ds)
    obs = []
    for i in range(len(ds)):
        for j in range(len(ds)):
            t = g[(D.name, i, j)]
            inblk = lambda: (0 <= r) & (0 <= q) & (offs[i] <= r) & (r < offs[i + 1]) & (offs[j] <= q) & (q < offs[j + 1])
            if t.func is np.diag:
                e.check(len(t.args) == 1 and isinstance(t.args[0], TaskRef) and not t.kwargs, f"{what}: unexpected np.diag block task")
                key = t.args[0].key
                e.check(isinstance(key, tuple) and len(key) == 2 and key[0] == v.name and isinstance(key[1], int) and 0 <= key[1] < len(ds),
                        f"{what}: np.diag block refers to {key!r}")
                b = key[1]
                # np.diag(block b of v)[a, c] = block[a] if a == c else 0, a square of side ds[b]
                e.check(lambda: e.equal(ds[b], ds[i]) & e.equal(ds[b], ds[j]), f"{what}: block shape differs from its lazy chunk sizes")
                e.check(lambda: e.implies(inblk(), e.equal(r - offs[i], q - offs[j]) == np_nonzero()),
                        f"{what}: a non-zero where NumPy has none, or a zero where NumPy has an element of v")
                e.check(lambda: e.implies(inblk() & e.equal(r - offs[i], q - offs[j]), e.equal(offs[b] + (r - offs[i]), np_idx())),
                        f"{what}: the wrong element of v on the diagonal")
                obs.append(("diag", b))
            elif t.func is np.zeros_like:
                shp = t.kwargs.get("shape")
                e.check(isinstance(shp, tuple) and len(shp) == 2, f"{what}: zeros_like block without 2-d shape")
                e.check(lambda: e.equal(shp[0], ds[i]) & e.equal(shp[1], ds[j]), f"{what}: block shape differs from its lazy chunk sizes")
                e.check(lambda: e.implies(inblk(), _NOT(np_nonzero())), f"{what}: an all-zero block covers a position where NumPy has an element of v")
                obs.append(("zeros",))
            else:
                e.check(False, f"{what}: block task is neither np.diag nor np.zeros_like")
    return obs


def mk_diag1d(nblocks, kmax):
    def setup(e):
        ds = tuple(e.int(f"d{i}", 0) for i in range(nblocks))
        n = e.int("n", 0)
        e.assume(lambda: e.equal(n, _tot(ds)))
        k = e.int("k", -kmax, kmax)
        r = e.int("r", 0)
        q = e.int("q", 0)
        return ds, n, k, r, q

    def run(e, ds, n, k, r, q):
        _clear()
        v = _vector("vec", ds)
        rec = _Rec()

        def pad(array, pad_width, mode="constant", **kw):
            rec.calls.append((array, pad_width, mode, kw))
            return "padded"

        with patched((CR, "pad", pad)):
            res = da.diag(v, k)
        # NumPy: diag(v, k) is (n+|k|) x (n+|k|); [i + max(0, -k), i + max(0, k)] = v[i]
        lo_r = e.ite(lambda: k < 0, -k, 0)
        absk = e.ite(lambda: k < 0, -k, k)
        if not rec.calls:
            e.check(lambda: e.equal(k, 0), "diag(v, k != 0) built without padding")
            D, a0, b0 = res, 0, 0
            shape = (n, n)
        else:
            e.check(len(rec.calls) == 1 and res == "padded", "diag(v, k) is not one padding of diag(v)")
            D, pw, mode, kw = rec.calls[0]
            e.check(mode == "constant" and (not kw or kw == {"constant_values": 0}), "padding is not with constant zeros")
            e.check(len(pw) == 2 and all(len(x) == 2 for x in pw), "pad_width is not 2 x 2")
            for x in pw:
                e.check(lambda: (x[0] >= 0) & (x[1] >= 0), "negative pad width")
            a0, b0 = pw[0][0], pw[1][0]
            shape = (n + pw[0][0] + pw[0][1], n + pw[1][0] + pw[1][1])
        e.check(isinstance(D, da.Array), "diag(v) is not an Array")
        e.check(lambda: e.equal(shape[0], n + absk) & e.equal(shape[1], n + absk), "shape differs from NumPy's (n+|k|, n+|k|)")
        e.check(lambda: e.equal(_tot(D.chunks[0]), n) & e.equal(_tot(D.chunks[1]), n), "lazy chunks of diag(v) do not add up to (n, n)")
        inside = lambda: (r < n + absk) & (q < n + absk)
        npnz = lambda: e.equal(q - r, k) & (r - lo_r >= 0) & (r - lo_r < n)
        npidx = lambda: r - lo_r
        # positions of the padding: zero in NumPy
        e.check(lambda: e.implies(inside() & ((r - a0 < 0) | (r - a0 >= n) | (q - b0 < 0) | (q - b0 >= n)), _NOT(npnz())),
                "a padded (zero) position where NumPy has an element of v")
        g = _graph(D)
        obs = _diag0_check(e, D, g, v, n, r - a0, q - b0, lambda: inside() & npnz(), npidx, "diag(1-d)")
        _clear()
        return [obs, a0, b0]

    def e2e(model):
        ds = tuple(model[f"d{i}"] % 4 for i in range(nblocks))
        k = max(-5, min(5, model["k"]))        # the padded witness has (n+|k|)**2 elements: sign and zero-ness of k kept, size clipped
        x = np.arange(sum(ds)) + 1
        for dv in (da.from_array(x, chunks=(ds,)), da.from_array(x, chunks=max(1, ds[0]))):
            _cmp(f"diag(1-d chunks={dv.chunks}, k={k})", da.diag(dv, k), np.diag(x, k))
        _cmp(f"diag(numpy 1-d n={len(x)}, k={k})", da.diag(x, k), np.diag(x, k))

    return Obligation(f"diag1d[blocks={nblocks},|k|<={kmax}]", setup, run, patches=_patches, e2e=e2e, e2e_every=1)


def mk_diag2d(nblocks):
    """2-d input, k == 0, equal row and column chunks: the block-diagonal shortcut"""

    def setup(e):
        ds = tuple(e.int(f"d{i}", 0) for i in range(nblocks))
        t = e.int("t", 0)
        return ds, t

    def run(e, ds, t):
        _clear()
        v = _matrix("mat", ds, tuple(ds))
        D = da.diag(v)
        g = _graph(D)
        e.check(len(D.chunks) == 1 and len(D.chunks[0]) == nblocks, "not 1-d with one block per diagonal block")
        e.check(lambda: e.equal(list(D.chunks[0]), list(ds)), "lazy chunks differ from the diagonal blocks' sizes")
        _keys_ok(e, g, D, "diag(2-d)")
        offs = _starts(ds)
        for i in range(nblocks):
            tk = g[(D.name, i)]
            e.check(tk.func is np.diag and len(tk.args) == 1 and isinstance(tk.args[0], TaskRef) and not tk.kwargs, "unexpected block task")
            key = tk.args[0].key
            e.check(isinstance(key, tuple) and len(key) == 3 and key[0] == v.name, f"block refers to {key!r}")
            bi, bj = key[1], key[2]
            # np.diag(B)[l] = B[l, l], l < min(B.shape); element t of NumPy's diagonal is v[t, t]
            e.check(lambda: e.equal(e.ite(lambda: ds[bi] < ds[bj], ds[bi], ds[bj]), ds[i]), "block length differs from its lazy chunk size")
            e.check(lambda: e.implies((offs[i] <= t) & (t < offs[i + 1]),
                                      e.equal(offs[bi] + (t - offs[i]), t) & e.equal(offs[bj] + (t - offs[i]), t)),
                    "element t of the diagonal is not v[t, t]")
        _clear()
        return [tuple(D.chunks[0])]

    def e2e(model):
        ds = tuple(model[f"d{i}"] % 4 for i in range(nblocks))
        n = sum(ds)
        x = _mkblock2(0, n, 0, n)
        dv = da.from_array(x, chunks=(ds, ds))
        for k in (0, 1, -2):
            _cmp(f"diag(2-d chunks={dv.chunks}, k={k})", da.diag(dv, k), np.diag(x, k))

    return Obligation(f"diag2d[blocks={nblocks}]", setup, run, patches=_patches, e2e=e2e, e2e_every=1)


# ----------------------------------------------------------------------------- (3c) diagonal (NumPy integer arithmetic: enumerated)

DIAGONAL_CHUNKS = ((1, 2), (2, 2), (3, 1), (2, 3), (1, 1), (3, 3), (2, 5), (5, 1))
AXES2 = ((0, 1), (1, 0), (-1, -2))
AXES3 = ((0, 1), (0, 2), (1, 2), (2, 0), (-2, -3))


def _diagonal_struct(e, a, x, off, ax1, ax2, what):
    """structural pointwise check of dask's diagonal graph against NumPy's definition (all values concrete)"""
    d = da.diagonal(a, off, ax1, ax2)
    ref = np.diagonal(x, off, ax1, ax2)
    g = _graph(d)
    nd = a.ndim
    p1, p2 = ax1 % nd, ax2 % nd
    free = [ax for ax in range(nd) if ax not in (p1, p2)]
    e.check(d.ndim == ref.ndim and tuple(_tot(c) for c in d.chunks) == ref.shape, f"{what}: lazy chunks {d.chunks} do not add up to NumPy's shape {ref.shape}")
    e.check(d.dtype == ref.dtype, f"{what}: dtype")
    e.check(tuple(d.chunks[:-1]) == tuple(a.chunks[ax] for ax in free), f"{what}: free axes' chunks changed")
    _keys_ok(e, g, d, what)
    starts = [_starts(c) for c in a.chunks]
    offs = _starts(d.chunks[-1])
    for key in itertools.product(*[range(len(c)) for c in d.chunks]):
        t = g[(d.name,) + key]
        i = key[-1]
        if t.func is not np.diagonal:
            e.check(d.chunks[-1][i] == 0, f"{what}: a non-empty output block is not produced by np.diagonal")
            continue
        ref_, kl, b1, b2 = t.args
        e.check(isinstance(ref_, TaskRef) and ref_.key[0] == a.name and len(ref_.key) == nd + 1, f"{what}: block refers to {ref_!r}")
        bidx = tuple(int(z) for z in ref_.key[1:])
        kl, b1, b2 = int(kl), int(b1) % nd, int(b2) % nd
        e.check({b1, b2} == {p1, p2}, f"{what}: block diagonal taken along other axes")
        e.check(tuple(bidx[ax] for ax in free) == key[:-1], f"{what}: free block indices do not match")
        bshape = tuple(a.chunks[ax][bidx[ax]] for ax in range(nd))
        blen = max(0, min(bshape[b1] - max(0, -kl), bshape[b2] - max(0, kl)))
        e.check(blen == d.chunks[-1][i], f"{what}: a block's diagonal has {blen} elements, its lazy chunk says {d.chunks[-1][i]}")
        for l in range(blen):
            tt = offs[i] + l
            # NumPy: element tt of diagonal(x, off, ax1, ax2) has index max(0,-off)+tt on ax1 and max(0,off)+tt on ax2
            want = {p1: max(0, -off) + tt, p2: max(0, off) + tt}
            have = {b1: starts[b1][bidx[b1]] + max(0, -kl) + l, b2: starts[b2][bidx[b2]] + max(0, kl) + l}
            e.check(want == have, f"{what}: element {tt} of the diagonal is read from {have}, NumPy reads {want}")
    return tuple(d.chunks[-1])


def mk_diagonal(nmax, three_d, chunk_opts):
    sizes = list(range(nmax + 1))
    offsets = list(range(-nmax - 1, nmax + 2))

    def setup(e):
        N = e.pick("N", sizes)
        M = e.pick("M", sizes)
        ch = e.pick("ch", chunk_opts)
        return N, M, ch

    def build(N, M, ch):
        if three_d:
            x = np.arange(N * 3 * M).reshape(N, 3, M)
            return x, da.from_array(x, chunks=(ch[0], 2, ch[1])), AXES3
        x = np.arange(N * M).reshape(N, M)
        return x, da.from_array(x, chunks=ch), AXES2

    def run(e, N, M, ch):
        _clear()
        obs = []
        x, a, axes = build(N, M, ch)
        for (ax1, ax2) in axes:
            for off in offsets:
                obs.append(_diagonal_struct(e, a, x, off, ax1, ax2, f"diagonal(shape={x.shape}, chunks={a.chunks}, offset={off}, axes=({ax1},{ax2}))"))
        _clear()
        return obs

    def e2e(model):
        N, M, ch = sizes[model.get("N", 0)], sizes[model.get("M", 0)], chunk_opts[model.get("ch", 0)]
        x, a, axes = build(N, M, ch)
        for (ax1, ax2) in axes:
            for off in offsets:
                _cmp(f"diagonal(shape={x.shape}, chunks={a.chunks}, offset={off}, axes=({ax1},{ax2}))", da.diagonal(a, off, ax1, ax2), np.diagonal(x, off, ax1, ax2))
        if not three_d:
            for off in offsets:
                _cmp(f"diag(2-d shape={x.shape}, chunks={a.chunks}, k={off})", da.diag(a, off), np.diag(x, off))

    return Obligation(f"diagonal[{'3d' if three_d else '2d'},N,M<={nmax}]", setup, run, e2e=e2e, e2e_every=1)


# ----------------------------------------------------------------------------- (4) ones / zeros / full: lazy chunks and block shapes

WRAPPED = ("ones", "zeros", "full", "empty")


def mk_wrap(ndim, smax, cmax):
    def setup(e):
        shape = tuple(e.int(f"s{i}", 0, smax) for i in range(ndim))
        cs = tuple(e.int(f"c{i}", 1, cmax) for i in range(ndim))
        return shape, cs

    def run(e, shape, cs):
        out = []
        for which in WRAPPED:
            out.append(run1(e, which, shape, cs))
        return out

    def run1(e, which, shape, cs):
        _clear()
        if which == "full":
            arr = da.full(shape, 7, chunks=cs, dtype="i8")
        else:
            arr = getattr(da, which)(shape, chunks=cs, dtype="i8")
        g = _graph(arr)
        e.check(len(arr.chunks) == ndim, "wrong ndim")
        for i in range(ndim):
            e.check(lambda: e.equal(_tot(arr.chunks[i]), shape[i]), "lazy chunks do not add up to the shape")
        e.check(arr.dtype == np.dtype("i8"), "dtype")
        _keys_ok(e, g, arr, which)
        for key in itertools.product(*[range(len(c)) for c in arr.chunks]):
            t = g[(arr.name,) + key]
            e.check(isinstance(t, Task) and len(t.args) == 1 and isinstance(t.args[0], DataNode), "unexpected block task")
            shp = t.args[0].value
            e.check(isinstance(shp, tuple) and len(shp) == ndim, "block shape argument")
            for i in range(ndim):
                e.check(lambda: e.equal(shp[i], arr.chunks[i][key[i]]), "a block is created with a shape different from its lazy chunk sizes")
            if e.mode == "native":
                got = t()
                e.check(got.shape == tuple(shp) and got.dtype == arr.dtype, "executed block shape/dtype")
                if which != "empty":
                    e.check(bool((got == {"ones": 1, "zeros": 0, "full": 7}[which]).all()), "executed block values")
        _clear()
        return [tuple(arr.chunks)]

    def e2e(model):
        shape = tuple(model[f"s{i}"] for i in range(ndim))
        cs = tuple(model[f"c{i}"] for i in range(ndim))
        _e2e_fill(shape, cs)

    return Obligation(f"wrap[ndim={ndim},s<={smax},c<={cmax}]", setup, run, patches=_patches, e2e=e2e, e2e_every=5)


def _e2e_fill(shape, cs):
    tag = f"shape={shape}, chunks={cs}"
    for dt in (None, "i4", bool):
        _cmp(f"ones({tag}, dtype={dt})", da.ones(shape, chunks=cs, dtype=dt), np.ones(shape, dtype=dt))
        _cmp(f"zeros({tag}, dtype={dt})", da.zeros(shape, chunks=cs, dtype=dt), np.zeros(shape, dtype=dt))
    for fv in (7, 2.5, True):
        _cmp(f"full({tag}, {fv})", da.full(shape, fv, chunks=cs), np.full(shape, fv))
    d = da.empty(shape, chunks=cs, dtype="i2")
    if d.shape != tuple(shape) or tuple(sum(c) for c in d.chunks) != tuple(shape) or d.dtype != np.dtype("i2") or d.compute(scheduler="sync").shape != tuple(shape):
        raise Violation(f"empty({tag}): shape/chunks/dtype")
    x = (np.arange(int(np.prod(shape))).reshape(shape) % 5).astype("i4")
    dx = da.from_array(x, chunks=cs)
    _cmp(f"ones_like({tag})", da.ones_like(dx), np.ones_like(x))
    _cmp(f"zeros_like({tag}, dtype=float)", da.zeros_like(dx, dtype=float), np.zeros_like(x, dtype=float))
    _cmp(f"full_like({tag}, 3)", da.full_like(dx, 3), np.full_like(x, 3))
    _cmp(f"full_like({tag}, 2.5, dtype=float)", da.full_like(dx, 2.5, dtype=float), np.full_like(x, 2.5, dtype=float))
    rs = tuple(reversed(shape))
    _cmp(f"ones_like({tag}, shape={rs})", da.ones_like(dx, shape=rs, chunks=tuple(reversed(cs))), np.ones_like(x, shape=rs))
    _cmp(f"zeros_like(numpy, {tag})", da.zeros_like(x, chunks=cs), np.zeros_like(x))
    d = da.empty_like(dx)
    if d.shape != x.shape or d.chunks != dx.chunks or d.dtype != x.dtype or d.compute(scheduler="sync").shape != x.shape:
        raise Violation(f"empty_like({tag}): shape/chunks/dtype")


FRAC_STEPS = (0.1, 0.3, 0.7, 0.15, 0.25, 1.5, -0.3, -0.1)
FRAC_STARTS = (0, 1, -2.5)


def mk_arange_fractional(kmax):
    """arange with fractional (non-dyadic) steps whose stop is start + k * step: the element count ceil((stop - start) / step) is float
    arithmetic, so step, start, k and the chunk size are solver-enumerated; shape and chunks must equal NumPy's exactly, values within
    1e-12 relative (dask computes each block's start separately, NumPy one running sum)"""
    import operator

    def setup(e):
        step = e.pick("step", FRAC_STEPS)
        start = e.pick("start", FRAC_STARTS)
        k = e.int("k", 0, kmax)
        c = e.pick("chunk", (1, 2, 3, 5))
        nudge = e.pick("nudge", (0.0, 1e-9, -1e-9))
        return step, start, k, c, nudge

    def run(e, step, start, k, c, nudge):
        import dask.array as da
        k = operator.index(k)
        stop = start + k * step + nudge * (1 if step > 0 else -1)
        want = np.arange(start, stop, step)
        d = da.arange(start, stop, step, chunks=c)
        e.check(d.shape == want.shape, f"arange({start}, {stop}, {step}) has lazy shape {d.shape}, NumPy {want.shape}")
        e.check(sum(d.chunks[0]) == want.shape[0], "lazy chunks do not add up to NumPy's length")
        got = d.compute(scheduler="sync")
        e.check(got.shape == want.shape, f"arange({start}, {stop}, {step}, chunks={c}) computes {got.shape[0]} elements, NumPy {want.shape[0]}")
        if want.size:
            err = float(np.max(np.abs(got - want) / np.maximum(1.0, np.abs(want))))
            e.check(err < 1e-12, f"arange({start}, {stop}, {step}, chunks={c}) differs from NumPy by {err:.3g} (relative)")
        e.check(got.dtype == want.dtype, "dtype differs")
        return int(want.shape[0])

    return Obligation(f"arange_fractional[k<={kmax}]", setup, run)


def obligations(tier):
    obs = []
    if tier == "quick":
        obs.append(mk_arange(8, 9, (1, 2, 3, -1, -2, -3)))
        obs.append(mk_arange(1000, 2001, (1, 2, 3, 7, -1, -2, -3, -7), max_blocks=4, every=7))
        obs.append(mk_eye(6, 7, 8, every=8))
        obs.append(mk_eye(300, 301, 700, max_blocks=3, every=9))
        obs.append(mk_tri(4, 10 ** 6, TRI_SPECS))
        for nb in (1, 2, 3):
            obs.append(mk_diag1d(nb, 1000))
            obs.append(mk_diag2d(nb))
        obs.append(mk_diagonal(4, False, DIAGONAL_CHUNKS[:5]))
        obs.append(mk_diagonal(2, True, DIAGONAL_CHUNKS[:3]))
        obs.append(mk_wrap(1, 8, 9))
        obs.append(mk_wrap(2, 4, 5))
        obs.append(mk_arange_fractional(13))
    else:
        obs.append(mk_arange_fractional(40))
        obs.append(mk_arange(16, 17, (1, 2, 3, 4, 5, -1, -2, -3, -4, -5), every=11))
        obs.append(mk_arange(10 ** 6, 2 * 10 ** 6 + 1, (1, 2, 3, 7, 10, -1, -2, -3, -7, -10), max_blocks=6, every=11))
        obs.append(mk_eye(9, 10, 12, every=13))
        obs.append(mk_eye(1000, 1001, 3000, max_blocks=4, every=17))
        obs.append(mk_tri(6, 10 ** 6, TRI_SPECS))
        for nb in (1, 2, 3, 4):
            obs.append(mk_diag1d(nb, 1000))
            obs.append(mk_diag2d(nb))
        obs.append(mk_diagonal(6, False, DIAGONAL_CHUNKS))
        obs.append(mk_diagonal(3, True, DIAGONAL_CHUNKS))
        obs.append(mk_wrap(1, 12, 13))
        obs.append(mk_wrap(2, 7, 8))
        obs.append(mk_wrap(3, 3, 4))
    return obs
