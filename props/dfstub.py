"""dask.dataframe needs pyarrow at import time; the sandbox has none.  A stub
package (attribute access returns inert objects) lets the module import; all
parquet/ORC/arrow-string code is unreachable and outside every claim."""
import os
import sys
import warnings

import pandas as pd  # noqa: F401  (must be imported before the stub is visible)

_STUBS = os.path.join(os.path.dirname(os.path.dirname(os.path.abspath(__file__))), "stubs")
if _STUBS not in sys.path:
    sys.path.insert(0, _STUBS)
import dask

dask.config.set({"dataframe.convert-string": False})
with warnings.catch_warnings():
    warnings.simplefilter("ignore")
    import dask.dataframe as dd  # noqa: E402,F401
