"""C21 -- array item assignment equals NumPy assignment (slice / integer kernels).

Kernels symbolically executed: parse_assignment_indices (with normalize_index and
its helpers) and the per-block index arithmetic of setitem_array: which blocks
are touched, the block-local indices, and the slice of `value` every block gets
(including the reversal for negative steps and size-1 / missing / extra leading
value axes).

setitem_array is driven with a duck-typed array (chunks / shape / __dask_keys__)
whose chunk sizes are solver variables and a duck-typed value that records the
index it is sliced with, so nothing has to be concretised.

Oracle (pointwise, complete for basic indices): for a symbolic probe position p
NumPy's meaning of the ORIGINAL index (reference = transcription of
PySlice_AdjustIndices, validated against slice.indices on every witness) says
whether p is assigned and, if so, which element of the (broadcast) value it
receives.  In the returned graph the task of p's block must either pass the
block through (then NumPy must not assign p) or call `setitem(block, piece,
block_indices)`; with NumPy semantics for that block-level assignment p's local
offset must be assigned iff NumPy assigns p, the element it receives must be the
same element of `value`, and the piece must be broadcastable to the block-local
selection (no error at compute time).  One output key per input block at the
same block coordinates <=> chunks unchanged.
"""
from __future__ import annotations

import itertools

import numpy as np

from symx.core import SInt, Violation, HarnessError, NativeEngine
from symx.patch import py_indices, rewritten, patched, math_shim, np_shim, INT_SHIM
from symx.run import Obligation

import dask.array.slicing as S
import dask.utils as U

PROPERTY = "C21"
LEVEL = "other"
BUDGET = {"quick": 240, "thorough": 1800}

EXPLANATION = (
    "Bounded symbolic execution (symx: SInt proxies over z3 Int, fork on every comparison, DFS over decision prefixes "
    "until the path tree is exhausted) of dask's real parse_assignment_indices and setitem_array. Chunk sizes, slice "
    "start/stop, integer indices and a probe position are solver variables; the array and the value are duck-typed "
    "stand-ins (the value records the index each block slices it with). For every path class z3 shows the pointwise "
    "NumPy oracle for all values, the exhausted path tree shows the classes are complete within the bounds. Each path "
    "model is replayed natively on the unpatched functions and pushed through da.from_array(...); x[idx] = v; "
    "x.compute() against NumPy with NumPy, dask-array and scalar values (e2e witness, not a solver claim).")

ASSUMPTIONS = [
    "slice.indices() inside normalize_slice, parse_assignment_indices and setitem_array is replaced (AST rewrite of the "
    "functions re-read from /repo at run time) by a Python transcription of CPython's PySlice_AdjustIndices so operands "
    "stay symbolic; the transcription and the oracle's own lazy copy of it are validated natively against slice.indices "
    "on every witness",
    "module globals `int`, `math.isnan`, `np.isnan` of dask.array.slicing are shimmed to accept SInt (chunk sizes are never "
    "NaN in this harness)",
    "the chunk function setitem(x, v, indices) returns x when v has zero size and otherwise a copy of x after the NumPy "
    "assignment x[tuple(indices)] = v (it is 6 lines of NumPy calls; exercised by every e2e witness)",
    "value[tuple(value_indices)] on the real value (NumPy-backed dask array) has NumPy basic-indexing semantics (C20) and "
    "concatenate_array_chunks returns the same values in one chunk (exercised by the e2e witnesses with dask-array values)",
    "Array.__setitem__ (core.py) hands the index and asanyarray(value) to setitem_array and rebuilds the array with "
    "chunks=self.chunks; it is covered by the e2e witnesses only",
]
STUBS = ["AST rewrite: slice.indices -> symx.patch.py_indices in normalize_slice, parse_assignment_indices, setitem_array",
         "dask.array.slicing.int -> ShimInt, .math -> math_shim, .np -> np_shim (isnan only)",
         "duck-typed `array` (shape, chunks, __dask_keys__) and `value` (shape, __getitem__ recording the index, one-chunk piece "
         "with npartitions/__dask_keys__/dask) passed to setitem_array"]
ENUM = ["number of chunks per axis, the step and the kind of every index item (one obligation each)",
        "the value's broadcast pattern: number of value axes, size-1 bits, one extra leading axis (solver-enumerated pick)"]
OUTSIDE = ["1-d integer-list / boolean-mask indexers (NumPy and dask) and full-shape boolean dask masks: their handling is NumPy code "
           "(np.where / fancy indexing) -- e2e witnesses only, derived from the slice of the path model",
           "dask-array values, Python scalars, masked values and the dtype cast in Array.__setitem__: witnesses only",
           "None / Ellipsis inside an assignment index; indices with repeated positions; unknown (NaN) chunk sizes",
           "arrays with more than 2 dimensions, more chunks per axis or larger chunk sizes than the bounds",
           "the body of the chunk function setitem (NumPy calls): modelled by its NumPy meaning, run concretely by every e2e witness"]

BOUNDS = {
    "quick": dict(chunks_per_axis="2..3 (1-d), 2x2 / 2x1 (2-d)", chunk_size="[0,3] / [1,3] (1-d), [1,2] (2-d; [0,2] for int,int)",
                  start_stop="[-dim-2, dim+2] or None", step="{None,2,-1,-2}", int_index="[-dim-2, dim+1] (1-d and int,int), [-dim, dim-1] next to a slice",
                  ndim="1, 2", value="scalar, selection shape, size-1 axes, missing leading axes, one extra leading size-1 axis (subset per obligation)",
                  parse="dim in [1,8], start/stop in [-dim-3, dim+3] or None, step {None,2,3,-1,-2,-3}; 2-d int+slice: dims in [1,4], step {1,-1,2,-2}",
                  fancy="2-d, chunks (a,b) x (2,1) with a,b in [1,2]; list / mask / dask mask x {int -1, ':', '::-1'} x 3 list shapes x 3 value shapes"),
    "thorough": dict(chunks_per_axis="1..4 (1-d), 2x2 / 3x2 (2-d)", chunk_size="[0,4] (1-d; [1,3] for 4 chunks), [0,3] / [1,3] (2-d)",
                     start_stop="[-dim-3, dim+3] or None", step="{None,2,3,-1,-2,-3}", int_index="[-dim-2, dim+1] (1-d and int,int), [-dim, dim-1] next to a slice",
                     ndim="1, 2", value="scalar, selection shape, size-1 axes, missing leading axes, one extra leading size-1 axis (all for most obligations)",
                     parse="dim in [1,12], start/stop in [-dim-4, dim+4] or None, step {None,1..4,-1..-4}; 2-d int+slice: dims in [1,8]",
                     fancy="2-d, chunks (a,b) x (2,1) with a,b in [1,3]; list / array / mask / dask mask x {int 0, int -1, ':', '::-1'} x 3 list shapes x 3 value shapes"),
}

# NOTE (findings made with this harness, see known_findings.json):
#  * recorded, not repaired: assigning to an EMPTY selection a value that has an axis longer than 1 (x[0:0, :] = np.arange(4)) raises ValueError
#    although NumPy accepts the no-op (setitem_array: 'Empty slices can only be assigned size 1 values').  Every set*[...] obligation declares
#    the 0/1 model variable empty_big_value (1 iff some slice selects nothing and some value axis is longer than 1) so that the known-finding
#    predicate "empty_big_value == 1" names exactly that region; nothing is carved out of the checks themselves.
#  * witness level (e2e extra of the 2-d obligations, dask boolean mask on the first axis, value with fewer axes than the selection whose first
#    axis is longer than the mask): x[dask_mask, :] = np.array([10, 20, 30]) on a (1, 3) array raises ValueError('... greater then corresponding
#    boolean index size') because setitem_array zips implied_shape_positions without the offset.  Model variable mask_lowdim_value names it.
#  * repaired in /repo after this harness reported them: an integer index before a negative-step slice indexed the value axes with array
#    positions (x[0, ::-1] = 5 raised IndexError, 3-d: wrong values); an empty negative-step selection had a negative implied length
#    (x[0:2:-1] = np.array([]) raised); a value with an extra leading size-1 axis next to an integer index failed at compute time
#    (x[0, 0:4] = [[...]]); witnesses: integer index before a list / mask indexer raised TypeError (x[0, [0, 2]] = [10, 20]); a size-1 value
#    through a dask boolean mask only reached the first selected element.


def functions():
    return [S.parse_assignment_indices, S.setitem_array, S.setitem, S.normalize_index, S.normalize_slice, S.check_index,
            S.sanitize_index, S.posify_index]


_REWRITTEN = {}


def _rw(fname):
    """AST-rewritten copy of a function of dask.array.slicing; re-read from the repo once per worker process (setitem_array is ~550 lines,
    re-parsing it on every path dominated the run time)"""
    if fname not in _REWRITTEN:
        _REWRITTEN[fname] = rewritten(S, fname)
    return _REWRITTEN[fname]


def _patches():
    ns = _rw("normalize_slice")
    pa = _rw("parse_assignment_indices")
    sa = _rw("setitem_array")
    return patched((S, "normalize_slice", ns), (S, "parse_assignment_indices", pa), (S, "setitem_array", sa),
                   (S, "int", INT_SHIM), (S, "math", math_shim()), (S, "np", np_shim()))


# -- reference semantics (lazy: e.ite instead of Python branches, so the oracle never forks) ----------


def _all(xs):
    r = True
    for x in xs:
        r = r & x
    return r


def _any(xs):
    r = False
    for x in xs:
        r = r | x
    return r


def L_indices(e, s, n):
    """slice.indices(n) (PySlice_AdjustIndices) without Python branches on symbolic values; the step must be concrete"""
    step = 1 if s.step is None else s.step
    if not isinstance(step, int) or step == 0:
        raise HarnessError(f"oracle needs a concrete non-zero step, got {step!r}")
    neg = step < 0
    lo = -1 if neg else 0
    hi = (n - 1) if neg else n

    def adj(v, default):
        if v is None:
            return default
        return e.ite(lambda: v < 0, e.ite(lambda: v + n < 0, lo, v + n), e.ite(lambda: v >= n, hi, v))

    return adj(s.start, (n - 1) if neg else 0), adj(s.stop, -1 if neg else n), step


def L_rank(e, n, s, p):
    """rank of position p in range(n)[s] (NumPy order), or -1"""
    a, b, c = L_indices(e, s, n)
    if c > 0:
        return e.ite(lambda: (a <= p) & (p < b) & ((p - a) % c == 0), (p - a) // c, -1)
    return e.ite(lambda: (b < p) & (p <= a) & ((a - p) % (-c) == 0), (a - p) // (-c), -1)


def L_len(e, n, s):
    a, b, c = L_indices(e, s, n)
    if c > 0:
        return e.ite(lambda: a < b, (b - a + c - 1) // c, 0)
    return e.ite(lambda: b < a, (a - b - c - 1) // (-c), 0)


def locate(ls, p):
    """(block, local offset) of position p (forks over the blocks)"""
    off = 0
    for blk in range(len(ls)):
        if p < off + ls[blk]:
            return blk, p - off
        off = off + ls[blk]
    raise HarnessError("probe outside array")


# -- duck-typed stand-ins -------------------------------------------------------------------------------


class DuckArray:
    """what setitem_array reads of the assigned-to array: shape, chunks, __dask_keys__()"""

    def __init__(self, name, chunks):
        self.name = name
        self.chunks = tuple(tuple(c) for c in chunks)
        self.shape = tuple(sum(c[1:], c[0]) for c in self.chunks)
        self.ndim = len(self.chunks)
        self.numblocks = tuple(len(c) for c in self.chunks)
        self.dtype = np.dtype("int64")

    def __dask_keys__(self):
        def rec(prefix, dims):
            if not dims:
                return (self.name,) + prefix
            return [rec(prefix + (i,), dims[1:]) for i in range(dims[0])]
        return rec((), self.numblocks)


class DuckPiece:
    npartitions = 1

    def __init__(self, n, idx):
        self.key = ("v-piece", n)
        self.idx = idx

    def __dask_keys__(self):
        return [self.key]

    @property
    def dask(self):
        return {self.key: ("VALUE", self.idx)}


class DuckValue:
    """the assignment value: setitem_array reads .shape and slices it once per touched block"""

    def __init__(self, shape):
        self.shape = tuple(shape)
        self.ndim = len(self.shape)
        self.dtype = np.dtype("int64")
        self.n = 0

    def __getitem__(self, idx):
        self.n += 1
        return DuckPiece(self.n, idx)


# -- value configurations ---------------------------------------------------------------------------------


def value_cfgs(n_sel):
    """(lead, modes): `lead` extra leading size-1 axes, then len(modes) <= n_sel trailing-aligned axes, 'f' = full selection length,
    '1' = size 1.  NumPy rejects sequences for a scalar position, so no extra axis when nothing but integers index the array."""
    out = []
    for nv in range(n_sel + 1):
        for modes in itertools.product("f1", repeat=nv):
            out.append((0, modes))
            if nv == n_sel and n_sel >= 1:
                out.append((1, modes))
    return out


def _cfg_name(c):
    return ("L" * c[0]) + "".join(c[1]) if (c[0] or c[1]) else "scalar"


# -- the main obligation family ---------------------------------------------------------------------------------


def mk_set(kinds, nbs, steps, maxc, minc, pad, cfgs=None, short=False, int_oob=True, e2e_every=5, tag=""):
    """kinds: per axis 's' (slice start:stop:step), 'a' (start::step), 'b' (:stop:step), ':' (::step) or 'i' (integer).
    short: 2-d array, only the first index item is given (and not wrapped in a tuple)"""
    nd = len(kinds)
    sel_axes = [ax for ax in range(nd) if kinds[ax] != "i"]
    n_sel = len(sel_axes)
    cfgs = list(cfgs if cfgs is not None else value_cfgs(n_sel))

    def setup(e):
        e.opaque_str = True
        lss, dims, inds, ps = [], [], [], []
        for ax in range(nd):
            ls = tuple(e.int(f"l{ax}_{i}", minc, maxc) for i in range(nbs[ax]))
            dim = sum(ls[1:], ls[0])
            if minc == 0:
                e.assume(lambda: dim >= 1)
            lss.append(ls)
            dims.append(dim)
            k = kinds[ax]
            if k == "i":
                i = e.int(f"i{ax}")
                if int_oob:
                    e.assume(lambda: (i >= -dim - 2) & (i <= dim + 1))
                else:
                    e.assume(lambda: (i >= -dim) & (i < dim))
                inds.append(i)
            else:
                start = e.int(f"start{ax}") if k in "sa" else None
                stop = e.int(f"stop{ax}") if k in "sb" else None
                for v in (start, stop):
                    if v is not None:
                        e.assume(lambda: (v >= -dim - pad) & (v <= dim + pad))
                inds.append(slice(start, stop, steps[ax]))
            p = e.int(f"p{ax}", 0)
            e.assume(lambda: p < dim)
            ps.append(p)
        cfg = e.pick("vcfg", cfgs)
        lead, modes = cfg
        nv = len(modes)
        lens = {ax: L_len(e, dims[ax], inds[ax]) for ax in sel_axes}
        vaxes = [sel_axes[n_sel - nv + t] for t in range(nv)]          # array axis of every trailing value axis
        vshape = (1,) * lead + tuple(1 if modes[t] == "1" else lens[vaxes[t]] for t in range(nv))
        # model variable naming the region of the recorded finding (see NOTE above)
        ebv = e.int("empty_big_value", 0, 1)
        e.assume(lambda: (ebv == 1) == (_any([lens[ax] == 0 for ax in sel_axes]) & _any([n > 1 for n in vshape])))
        if n_sel == 2 and (steps[sel_axes[0]] or 1) > 0:
            # region of a witness-level finding (e2e extra with a dask boolean mask on the first axis): the value has fewer axes than
            # the selection and its first axis is longer than the mask
            mlv = e.int("mask_lowdim_value", 0, 1)
            e.assume(lambda: (mlv == 1) == ((lead + nv == 1) & (vshape[0] > dims[sel_axes[0]] if lead + nv == 1 else False)))
        return lss, dims, inds, ps, cfg, vshape

    def the_index(inds):
        return inds[0] if short else tuple(inds)

    def run(e, lss, dims, inds, ps, cfg, vshape):
        U._cumsum.cache_clear()
        lead, modes = cfg
        nv = len(modes)
        # ---- NumPy reference -------------------------------------------------------------------------
        oob = False
        g = []          # per array axis: rank of p in the selection (slice) / 0 if the integer hits p, else -1
        for ax in range(nd):
            if kinds[ax] == "i":
                i = inds[ax]
                if not ((i >= -dims[ax]) and (i < dims[ax])):
                    oob = True
                    g.append(-1)
                    continue
                pos = e.ite(lambda: i < 0, i + dims[ax], i)
                g.append(e.ite(lambda: ps[ax] == pos, 0, -1))
            else:
                g.append(L_rank(e, dims[ax], inds[ax], ps[ax]))
        arr = DuckArray("x", lss)
        val = DuckValue(vshape)
        try:
            dsk = S.setitem_array("out", arr, the_index(inds), val)
        except IndexError:
            if oob:
                return "IndexError"
            raise
        e.check(not oob, "no IndexError for an out-of-range integer index")
        # ---- structure: one output block per input block, same coordinates (=> chunks unchanged) -----------
        coords_all = list(itertools.product(*[range(len(ls)) for ls in lss]))
        outkeys = sorted(k for k in dsk if k[0] == "out")
        e.check(outkeys == [("out",) + c for c in coords_all], "output keys are not one per input block")
        e.check(all(k[0] in ("out", "v-piece") for k in dsk), "unexpected key in the graph")
        for c in coords_all:
            t = dsk[("out",) + c]
            if t == ("x",) + c:
                continue
            e.check(isinstance(t, tuple) and len(t) == 4 and t[0] is S.setitem, f"block {c}: neither pass-through nor a setitem task")
            e.check(t[1] == ("x",) + c, f"block {c}: setitem reads another block")
            e.check(isinstance(t[2], tuple) and t[2] in dsk and dsk[t[2]][0] == "VALUE", f"block {c}: value piece is not in the graph")
            e.check(isinstance(t[3], list) and len(t[3]) == nd, f"block {c}: needs one block index per axis")
            for ax in range(nd):
                if kinds[ax] == "i":
                    bi, bl = t[3][ax], lss[ax][c[ax]]
                    e.check(isinstance(bi, (int, SInt)) and not isinstance(bi, bool), "integer index became a non-integer block index")
                    e.check(lambda: (bi >= -bl) & (bi < bl), f"block {c}: integer block index outside the block (IndexError at compute time)")
        # ---- p's block ----------------------------------------------------------------------------------
        where = [locate(lss[ax], ps[ax]) for ax in range(nd)]
        c = tuple(w[0] for w in where)
        loc = [w[1] for w in where]
        t = dsk[("out",) + c]
        if t == ("x",) + c:
            e.check(lambda: _any([g[ax] < 0 for ax in range(nd)]), "NumPy assigns the element, dask passes its block through unchanged")
            return (tuple(g), "pass")
        bidx = t[3]
        vidx = dsk[t[2]][1]
        blen = [lss[ax][c[ax]] for ax in range(nd)]
        r, cnt = [], []                 # local rank / local count per axis (cnt None for integer axes)
        for ax in range(nd):
            bi = bidx[ax]
            if kinds[ax] == "i":
                r.append(e.ite(lambda: e.ite(lambda: bi < 0, bi + blen[ax], bi) == loc[ax], 0, -1))
                cnt.append(None)
            else:
                e.check(isinstance(bi, slice), "slice index became a non-slice block index")
                r.append(L_rank(e, blen[ax], bi, loc[ax]))
                cnt.append(L_len(e, blen[ax], bi))
        # the piece = value[vidx] with NumPy basic-indexing semantics
        e.check(isinstance(vidx, tuple), "value is not indexed with a tuple")
        items = list(vidx)
        vnd = len(vshape)
        if items and items[0] is Ellipsis:
            items = [slice(None)] * (vnd - (len(items) - 1)) + items[1:]
        e.check(len(items) <= vnd and all(isinstance(it, slice) for it in items), f"value indexed with {vidx!r}: not a basic slice per value axis")
        items = items + [slice(None)] * (vnd - len(items))
        plen = [L_len(e, vshape[i], items[i]) for i in range(vnd)]
        pst = [L_indices(e, items[i], vshape[i]) for i in range(vnd)]
        # broadcasting of the piece against the block-local selection (trailing alignment); k = surplus leading piece axes
        sel_cnt = [cnt[ax] for ax in sel_axes]
        sel_r = [r[ax] for ax in sel_axes]
        sel_g = [g[ax] for ax in sel_axes]
        k = vnd - n_sel
        dval, nval = [], []            # per value axis: index of the element p receives, dask / NumPy
        for i in range(vnd):
            j = i - k
            if j < 0:
                q = 0
                ng = 0
            else:
                q = e.ite(lambda: plen[i] == 1, 0, sel_r[j])
                ng = e.ite(lambda: vshape[i] == 1, 0, sel_g[j])
            dval.append(pst[i][0] + q * pst[i][2])
            nval.append(ng)
        piece_empty = lambda: _any([plen[i] == 0 for i in range(vnd)])
        fits = lambda: _all([(plen[i] == 1) if i - k < 0 else ((plen[i] == 1) | (plen[i] == sel_cnt[i - k])) for i in range(vnd)])
        e.check(lambda: piece_empty() | fits(), "the value piece of the block cannot be broadcast to the block-local selection (error at compute time)")
        nsel = lambda: _all([g[ax] >= 0 for ax in range(nd)])
        dsel = lambda: (piece_empty() == False) & _all([r[ax] >= 0 for ax in range(nd)])
        e.check(lambda: dsel() == nsel(), "the block-local indices assign the element iff NumPy does not (selected-ness differs)")
        e.check(lambda: e.implies(nsel(), _all([dval[i] == nval[i] for i in range(vnd)])), "the element receives another element of the value than in NumPy")
        return (tuple(g), "set", list(bidx), vidx)

    def e2e(model):
        import dask.array as da
        lss, dims, inds, ps, cfg, vshape = setup(NativeEngine(model))
        lss = tuple(lss)
        lead, modes = cfg
        nv = len(modes)
        index = the_index(inds)
        x0 = (np.arange(int(np.prod(dims))).reshape(dims) * 3 + 1)
        v = -(np.arange(int(np.prod(vshape))) + 1).reshape(vshape) * 10
        want = x0.copy()
        try:
            want[index] = v
        except IndexError:
            x = da.from_array(x0.copy(), chunks=lss)
            try:
                x[index] = v
            except IndexError:
                return
            raise Violation(f"x[{index}] = ... should raise IndexError (shape {dims})")
        # the oracle's transcription of slice.indices
        for ax in sel_axes:
            ne = NativeEngine({})
            if tuple(L_indices(ne, inds[ax], dims[ax])) != inds[ax].indices(dims[ax]) or tuple(py_indices(inds[ax], dims[ax])) != inds[ax].indices(dims[ax]):
                raise HarnessError("slice.indices transcription disagrees with CPython")
            if L_len(ne, dims[ax], inds[ax]) != len(range(dims[ax])[inds[ax]]):
                raise HarnessError("L_len disagrees with CPython")
        variants = [("numpy value", v)]
        if v.ndim == 0:
            variants.append(("python scalar", int(v)))
        variants.append(("dask value", da.from_array(v, chunks=1) if v.ndim else da.from_array(v)))
        for what, vv in variants:
            x = da.from_array(x0.copy(), chunks=lss)
            x[index] = vv
            got = x.compute(scheduler="sync")
            if what == "numpy value":
                # the assignment must not write into data other collections still refer to: an array derived from x BEFORE the
                # assignment keeps its values, also when both are computed together and when x is computed a second time
                import dask
                src = x0.copy()
                for ch in (lss, tuple((d,) for d in dims)):
                    xa = da.from_array(src, chunks=ch)
                    before = xa + 0
                    xa[index] = vv
                    r_after, r_before = dask.compute(xa, before, scheduler="sync")
                    again = xa.compute(scheduler="sync")
                    if not (r_before == x0).all() or not (src == x0).all():
                        raise Violation(f"x[{index}] = v (chunks {ch}) changed data that existed before the assignment (block assigned in place)")
                    if not (r_after == want).all() or not (again == want).all():
                        raise Violation(f"x[{index}] = v (chunks {ch}): result differs between computing together / a second time and NumPy")
            if x.chunks != lss:
                raise Violation(f"chunks changed from {lss} to {x.chunks} by x[{index}] = <{what} of shape {vshape}>")
            if got.shape != want.shape or not (got == want).all():
                raise Violation(f"x[{index}] = <{what} of shape {vshape}> on chunks {lss}: dask {got.tolist()} numpy {want.tolist()}")
        # extra witnesses (NumPy code paths, no solver claim): the first slice axis as integer list / boolean mask / dask mask
        if sel_axes and sum(model.values()) % 3 == 0:
            ax = sel_axes[0]
            pos = list(range(dims[ax]))[inds[ax]]
            full = list(inds) if not short else [inds[0], slice(None)]
            alts = [("integer list", pos), ("integer array", np.array(pos, dtype=int))]
            mask = np.zeros(dims[ax], dtype=bool)
            mask[pos] = True
            if (steps[ax] or 1) > 0:
                alts.append(("boolean mask", mask))
                alts.append(("dask boolean mask", da.from_array(mask, chunks=1)))
            for what, alt in alts:
                idx2 = tuple(alt if a == ax else full[a] for a in range(nd))
                want2 = x0.copy()
                try:
                    want2[tuple(np.asarray(t) if what == "dask boolean mask" and not isinstance(t, (slice, int)) else t for t in idx2)] = v
                except (TypeError, ValueError, IndexError):
                    continue        # NumPy itself rejects this value shape for an array indexer
                x = da.from_array(x0.copy(), chunks=lss)
                x[idx2] = v
                got = x.compute(scheduler="sync")
                if x.chunks != lss or not (got == want2).all():
                    raise Violation(f"x[{idx2}] = <value of shape {vshape}> ({what}) on chunks {lss}: dask {got.tolist()} numpy {want2.tolist()}")

    name = (f"set{nd}d[{tag}kinds={''.join(kinds)},nb={'x'.join(map(str, nbs))},steps={','.join(str(s) for s in steps)},"
            f"chunk={minc}..{maxc}{',short' if short else ''}]")
    return Obligation(name, setup, run, patches=_patches, e2e=e2e, e2e_every=e2e_every)


# -- parse_assignment_indices alone ----------------------------------------------------------------------------


def mk_parse(step, kind, maxdim, pad):
    """parse_assignment_indices((slice,), (dim,)): the parsed (positive-step) slice selects exactly NumPy's positions, in the same order
    or -- iff the axis is listed in `reverse` -- in reversed order, and the implied shape is NumPy's selection length"""
    def setup(e):
        e.opaque_str = True
        dim = e.int("dim", 1, maxdim)
        start = e.int("start") if kind in "sa" else None
        stop = e.int("stop") if kind in "sb" else None
        for v in (start, stop):
            if v is not None:
                e.assume(lambda: (v >= -dim - pad) & (v <= dim + pad))
        p = e.int("p", 0)
        e.assume(lambda: p < dim)
        ind = slice(start, stop, step)
        return dim, ind, p

    def run(e, dim, ind, p):
        parsed, implied, reverse, positions = S.parse_assignment_indices((ind,), (dim,))
        e.check(len(parsed) == 1 and isinstance(parsed[0], slice), "parsed index is not one slice")
        q = parsed[0]
        e.check(isinstance(q.step, int) and q.step > 0, "parsed slice must have a positive step")
        n = L_len(e, dim, ind)
        g = L_rank(e, dim, ind, p)
        e.check(len(implied) == 1, "implied shape must have one entry")
        e.check(lambda: implied[0] == n, "implied shape != NumPy selection length")
        e.check(reverse in ([], [0]), "reverse list names an axis that does not exist")
        h = L_rank(e, dim, q, p)
        e.check(lambda: (h >= 0) == (g >= 0), "parsed slice selects another set of positions")
        if reverse:
            e.check(lambda: e.implies(g >= 0, h == n - 1 - g), "parsed slice of a negative-step index is not the reversed selection")
        else:
            e.check(lambda: e.implies(g >= 0, h == g), "parsed slice enumerates the positions in another order")
        e.check(lambda: L_len(e, dim, q) == n, "parsed slice has another length")
        e.check(all(isinstance(t, int) and t == 0 for t in positions), "implied_shape_positions lists an axis that does not exist")
        return (q, list(implied), list(reverse), g)

    def e2e(model):
        dim = model["dim"]
        ind = slice(model.get("start"), model.get("stop"), step)
        parsed, implied, reverse, positions = S.parse_assignment_indices((ind,), (dim,))
        want = list(range(dim))[ind]
        got = list(range(dim))[parsed[0]]
        if reverse:
            got = got[::-1]
        if got != want or implied != [len(want)]:
            raise Violation(f"parse_assignment_indices(({ind},), ({dim},)) = {(parsed, implied, reverse, positions)}: NumPy selects {want}")

    return Obligation(f"parse[step={step},kind={kind},dim<={maxdim}]", setup, run, patches=_patches, e2e=e2e, e2e_every=3)


def mk_parse2(maxdim):
    """2-d: an integer and a slice in either order: implied shape has exactly the slice axes, reverse holds array-axis positions, integer
    indices are made non-negative"""
    def setup(e):
        e.opaque_str = True
        d0 = e.int("d0", 1, maxdim)
        d1 = e.int("d1", 1, maxdim)
        order = e.flag("int_first")
        step = e.pick("stepsel", (1, -1, 2, -2))
        i = e.int("i")
        a = e.int("a")
        b = e.int("b")
        p = e.int("p", 0)
        di, ds = (d0, d1) if order else (d1, d0)
        e.assume(lambda: (i >= -di) & (i < di) & (p < ds))
        e.assume(lambda: (a >= -ds - 1) & (a <= ds + 1) & (b >= -ds - 1) & (b <= ds + 1))
        return d0, d1, order, step, i, a, b, p

    def run(e, d0, d1, order, step, i, a, b, p):
        sl = slice(a, b, step)
        idx = (i, sl) if order else (sl, i)
        di, ds = (d0, d1) if order else (d1, d0)
        parsed, implied, reverse, positions = S.parse_assignment_indices(idx, (d0, d1))
        sax = 1 if order else 0
        e.check(len(parsed) == 2 and isinstance(parsed[sax], slice) and isinstance(parsed[1 - sax], (int, SInt)), "parsed index kinds changed")
        want_i = e.ite(lambda: i < 0, i + di, i)
        e.check(lambda: parsed[1 - sax] == want_i, "integer index not made non-negative correctly")
        n = L_len(e, ds, sl)
        e.check(len(implied) == 1, "implied shape must have one entry (the slice axis)")
        e.check(lambda: implied[0] == n, "implied shape != NumPy selection length")
        e.check(reverse in ([], [sax]), "reverse list names an axis without a slice")
        g = L_rank(e, ds, sl, p)
        h = L_rank(e, ds, parsed[sax], p)
        e.check(lambda: (h >= 0) == (g >= 0), "parsed slice selects another set of positions")
        e.check(lambda: e.implies(g >= 0, h == (n - 1 - g if reverse else g)), "parsed slice enumerates the positions in another order than `reverse` says")
        e.check(lambda: L_len(e, ds, parsed[sax]) == n, "parsed slice has another length")
        return (list(parsed), list(implied), list(reverse))

    return Obligation(f"parse2d[dim<={maxdim}]", setup, run, patches=_patches)


def mk_fancy(maxc, others, forms):
    """witnesses only (the index values end up in NumPy arrays, every input is solver-enumerated): a 1-d integer list / integer array /
    boolean mask / dask boolean mask on one axis of a 2-d array combined with an integer, a full or a reversed slice on the other axis,
    through the public API against NumPy"""
    def setup(e):
        l0 = (e.int("l0_0", 1, maxc), e.int("l0_1", 1, maxc))
        la = e.choice("list_axis", 2)
        other = e.pick("other", others)
        lk = e.choice("listkind", 3)
        form = e.pick("form", forms)
        vmode = e.pick("vmode", ("scalar", "full", "one"))
        return l0, la, other, lk, form, vmode

    def run(e, l0, la, other, lk, form, vmode):
        import operator
        import dask.array as da
        ch0 = tuple(operator.index(c) for c in l0)
        chunks = (ch0, (2, 1)) if la == 0 else ((2, 1), ch0)
        shape = tuple(sum(c) for c in chunks)
        dim = shape[la]
        pos = [[0], [-1, 0] if dim > 1 else [0], list(range(dim - 1, -1, -2))][lk]
        if form in ("mask", "dask_mask"):
            m = np.zeros(dim, dtype=bool)
            m[pos] = True
            npkey = m
            key = da.from_array(m, chunks=1) if form == "dask_mask" else m
            n = int(m.sum())
        else:
            npkey = pos
            key = np.array(pos) if form == "array" else list(pos)
            n = len(pos)
        oidx = {"int0": 0, "int-1": -1, "full": slice(None), "rev": slice(None, None, -1)}[other]
        osel = () if other.startswith("int") else (shape[1 - la],)
        sel = (n,) + osel if la == 0 else osel + (n,)
        vshape = {"scalar": (), "full": sel, "one": tuple(1 if a == (0 if la == 0 else len(sel) - 1) else t for a, t in enumerate(sel))}[vmode]
        v = -(np.arange(int(np.prod(vshape))) + 1).reshape(vshape) * 10
        x0 = np.arange(shape[0] * shape[1]).reshape(shape) * 3 + 1
        index = (key, oidx) if la == 0 else (oidx, key)
        npindex = (npkey, oidx) if la == 0 else (oidx, npkey)
        want = x0.copy()
        want[npindex] = v
        x = da.from_array(x0.copy(), chunks=chunks)
        x[index] = v
        got = x.compute(scheduler="sync")
        e.check(x.chunks == chunks, f"chunks changed from {chunks} to {x.chunks}")
        e.check(got.shape == want.shape and bool((got == want).all()),
                f"x[{npindex}] = <value of shape {vshape}> ({form}) on chunks {chunks}: dask {got.tolist()} numpy {want.tolist()}")
        return got.tolist()

    return Obligation(f"fancy[chunk<={maxc},other={'/'.join(others)},forms={'/'.join(forms)}]", setup, run)


def obligations(tier):
    obs = []
    F, ONE, LF, SC = (0, ("f",)), (0, ("1",)), (1, ("f",)), (0, ())
    if tier == "quick":
        pad = 2
        for step in (None, 2, -1, -2, 3, -3):
            obs.append(mk_parse(step, "s", 8, 3))
        obs.append(mk_parse(-2, "a", 8, 3))
        obs.append(mk_parse(-1, "b", 8, 3))
        obs.append(mk_parse2(4))
        obs.append(mk_set(("s",), (2,), (None,), 3, 0, pad))
        obs.append(mk_set(("s",), (2,), (2,), 3, 0, pad, cfgs=[F, ONE]))
        obs.append(mk_set(("s",), (2,), (-1,), 3, 0, pad, cfgs=[F, LF]))
        obs.append(mk_set(("s",), (2,), (-2,), 3, 0, pad))
        obs.append(mk_set(("s",), (3,), (2,), 3, 1, pad, cfgs=[F]))
        obs.append(mk_set(("s",), (3,), (-2,), 3, 1, pad, cfgs=[F]))
        obs.append(mk_set(("s",), (2,), (3,), 3, 0, pad, cfgs=[F]))
        obs.append(mk_set(("s",), (3,), (-3,), 2, 1, pad, cfgs=[F]))
        obs.append(mk_set(("a",), (3,), (-2,), 3, 0, pad, cfgs=[F]))
        obs.append(mk_set(("b",), (3,), (-1,), 3, 0, pad))
        obs.append(mk_set((":",), (3,), (-1,), 3, 0, pad))
        obs.append(mk_set(("i",), (3,), (None,), 3, 0, pad))
        obs.append(mk_set(("a", "b"), (2, 2), (-1, 2), 2, 1, pad, cfgs=[(0, ("f", "f")), (0, ("f", "1")), (0, ("f",)), (1, ("1", "f"))]))
        obs.append(mk_set(("b", ":"), (2, 2), (-2, -1), 2, 1, pad, cfgs=[(0, ("f", "f")), (0, ("1", "f")), (0, ())]))
        obs.append(mk_set(("a", "i"), (2, 2), (-1, None), 2, 1, pad, cfgs=[F, LF], int_oob=False))
        obs.append(mk_set(("i", "b"), (2, 2), (None, 2), 2, 1, pad, cfgs=[F, LF, SC], int_oob=False))
        obs.append(mk_set(("i", "a"), (2, 2), (None, -1), 2, 1, pad, cfgs=[F, ONE, SC], int_oob=False))
        obs.append(mk_set(("i", "i"), (2, 2), (None, None), 2, 0, pad))
        obs.append(mk_set(("s", ":"), (2, 1), (-2, None), 2, 1, pad, cfgs=[(0, ("f", "f")), (0, ("f",)), (0, ("f", "1"))], short=True))
        obs.append(mk_fancy(2, ("int-1", "full", "rev"), ("list", "mask", "dask_mask")))
    else:
        pad = 3
        for step in (None, 1, 2, 3, 4, -1, -2, -3, -4):
            for kind in "sab:":
                obs.append(mk_parse(step, kind, 12, 4))
        obs.append(mk_parse2(8))
        for step in (None, 2, 3, -1, -2, -3):
            obs.append(mk_set(("s",), (1,), (step,), 4, 1, pad))
            obs.append(mk_set(("s",), (2,), (step,), 4, 0, pad))
            obs.append(mk_set(("s",), (3,), (step,), 4, 0, pad, cfgs=[F, ONE, LF]))
            for kind in "ab:":
                obs.append(mk_set((kind,), (3,), (step,), 4, 0, pad, cfgs=[F]))
        for step in (2, -2):
            obs.append(mk_set(("s",), (4,), (step,), 3, 1, pad, cfgs=[F]))
        for nb in (1, 2, 3, 4):
            obs.append(mk_set(("i",), (nb,), (None,), 4, 0, pad))
        four = [(0, ("f", "f")), (0, ("1", "f")), (0, ("f",)), (1, ("f", "1"))]
        obs.append(mk_set(("a", "b"), (2, 2), (-1, 2), 3, 0, pad))
        obs.append(mk_set(("s", "a"), (2, 2), (None, -1), 3, 1, pad, cfgs=four))
        obs.append(mk_set(("b", "s"), (2, 2), (-2, 2), 3, 1, pad, cfgs=four))
        obs.append(mk_set(("a", "a"), (2, 2), (-3, 3), 3, 0, pad, cfgs=four))
        obs.append(mk_set(("b", "b"), (2, 2), (2, -2), 3, 0, pad, cfgs=four))
        obs.append(mk_set(("a", "b"), (3, 2), (-2, 2), 3, 1, pad, cfgs=[(0, ("f", "f")), (0, ("1", "f")), (0, ("f",))]))
        for st in (2, -1, -2):
            obs.append(mk_set(("s", "i"), (2, 2), (st, None), 3, 1, pad, int_oob=False))
            obs.append(mk_set(("i", "s"), (2, 2), (None, st), 3, 1, pad, int_oob=False))
            obs.append(mk_set(("s", ":"), (2, 2), (st, None), 3, 1, pad, cfgs=[(0, ("f", "f")), (0, ("f",)), (0, ("f", "1")), (0, ("1", "f")), (1, ("f", "f"))],
                              short=True))
        obs.append(mk_set(("i", "b"), (2, 2), (None, None), 3, 0, pad))
        obs.append(mk_set(("i", "i"), (3, 3), (None, None), 3, 0, pad))
        obs.append(mk_fancy(3, ("int0", "int-1", "full", "rev"), ("list", "array", "mask", "dask_mask")))
    return obs
