"""C46 -- window, cumulative and shift operations are seamless across partitions.

Kernels: dask.dataframe.dask_expr._expr.CreateOverlappingPartitions._layer, _combined_parts, _overlap_chunk / dask.dataframe.rolling.overlap_chunk
(symbolic partition lengths and overlaps), RollingReduction._is_blockwise_op / _lower, Shift / Diff / FFill / BFill .before / .after (symbolic window /
periods / limit), CumulativeFinalize._layer, cumulative_wrapper(_intermediate), TakeLast.operation, methods.cum*_aggregate (symbolic VALUES), and the
public dask.dataframe API (rolling, cumsum / cumprod / cummin / cummax, shift, diff, ffill / bfill, map_overlap) on solver-enumerated partitionings
against pandas on the unpartitioned frame.
"""
from __future__ import annotations

import operator
import types
import warnings

import numpy as np

from symx import core
from symx.core import SBool, Violation, HarnessError
from symx.patch import patched, py_indices, INT_SHIM
from symx.run import Obligation
from props.dfstub import dd

import pandas as pd
from dask.dataframe import methods
from dask.dataframe import rolling as RO
from dask.dataframe.dispatch import concat_dispatch
from dask.dataframe.dask_expr import _expr as EX
from dask.dataframe.dask_expr import _rolling as RL
from dask.dataframe.dask_expr import _cumulative as CU
from dask.dataframe.dask_expr import _collection as CO

PROPERTY = "C46"
LEVEL = "other"
BUDGET = {"quick": 400, "thorough": 2400}
CHUNK_PATHS = 60

# ------------------------------------------------------------------------------------------------------------------------------------------
# KNOWN DEFECTS OF THE UNCHANGED TREE (cumulative operations).  The assertions are kept; the failing regions are named by model variables
# (cum_multi, cum_first_empty, cum_first_hole, cum_empty_nonlast, cum_allnan_nonlast, cum_nan_middle: see _cum_flags and _cum_known) and the
# variants inside a region are skipped while SKIP_KNOWN is True.  Set SKIP_KNOWN = False to have every region checked (after a repair of dask, or to list them as known findings with
# predicates over those variables).  What goes wrong there (public-API reproductions are in the hand-over report):
#   * TakeLast.operation has no "no value yet" result for DataFrames (all-NaN column -> NaN carried into every later partition; empty partition ->
#     empty DataFrame, which cumulative_wrapper does not recognise) and returns a scalar for one-column DataFrames (cummin / cummax then fail in
#     DataFrame.where(..., axis=1) with IndexError on every multi-partition one-column frame);
#   * CumulativeFinalize._layer hands the first partition's "last" to partition 1 unwrapped, so an empty first partition (empty Series) becomes
#     the left operand of every later aggregation and swallows the running total (skipna=False);
#   * methods.cummin_aggregate / cummax_aggregate do not accept None (TakeLast's result for an empty / all-NaN Series partition: TypeError when the
#     first partition is such) and their scalar branch uses Python min / max, which forget a NaN (skipna=False, NaN in a middle partition).
SKIP_KNOWN = True
# ------------------------------------------------------------------------------------------------------------------------------------------

EXPLANATION = (
    "(1) overlap kernel, symbolic: the real CreateOverlappingPartitions._layer is run on a duck-typed expression with 1..4 (thorough: 1..6) partitions whose "
    "LENGTHS are unbounded symbolic ints and with unbounded symbolic `before` / `after`; partitions are row-interval stand-ins (tail / head / "
    "concat / iloc with Python slice semantics), the graph is evaluated with the real _combined_parts and _overlap_chunk / overlap_chunk. z3 "
    "decides for every path class: NotImplementedError is raised only if a neighbour that has to lend rows is shorter than the overlap; "
    "otherwise the frame handed to the user function for partition i is exactly rows [start_i - before, end_i + after) (nothing prepended to "
    "the first, nothing appended to the last partition), contiguous and in order, and the trimmed result is exactly rows [start_i, end_i). "
    "(2) window arithmetic, symbolic: RollingReduction._is_blockwise_op / _lower (window, center), Shift / Diff .before/.after (periods of "
    "either sign), FFill / BFill .before/.after (limit) are executed with an unbounded symbolic window / periods / limit and composed with "
    "kernel (1): for a symbolic row r of a symbolic-length partition, every row that pandas reads for r (rolling: [r-(w-1)+off, r+off] with "
    "off = (w-1)//2 if center else 0; shift / diff: r - periods; ffill: [r-limit, r]; bfill: [r, r+limit]), clipped to the frame, lies inside the "
    "frame the partition's task sees, unless NotImplementedError is raised, which happens only if a lending neighbour is shorter than what "
    "pandas needs. (3) cumulative kernel, symbolic values: the real CumulativeFinalize._layer graph with TakeLast.operation, cumulative_wrapper, "
    "cumulative_wrapper_intermediate and methods.cum*_aggregate is evaluated on object-dtype pandas Series holding unbounded SYMBOLIC ints "
    "(partition lengths enumerated, empty partitions anywhere): the result equals the prefix sums / products / running minima / maxima of the "
    "concatenated sequence for ALL values (z3 equality per element; min / max comparisons fork). (4) public API, solver-enumerated inputs: "
    "partition structure (number of partitions, rows per partition, EMPTY partitions made with a filter so that divisions stay known), NaN "
    "positions, window / min_periods / center / periods / limit / before / after are enumerated; rolling(int and time-based windows, windows "
    "spanning several partitions for time-based ones).sum/count/min/max/mean, cumsum / cumprod / cummin / cummax (skipna both ways, Series, "
    "DataFrame, one-column DataFrame), shift, diff, ffill / bfill (limit None and int), map_overlap (int and timedelta overlaps, extra args) are "
    "computed with scheduler='sync' and compared EXACTLY (index, dtypes, values, NaN positions; integer-valued float data) with pandas on the "
    "unpartitioned frame. An exception is accepted only where dask documents it and only when its documented condition holds: "
    "NotImplementedError('Partition size is less than overlapping window size') only if a lending neighbour partition has fewer rows than the "
    "overlap pandas needs (kernel (1) decides the 'iff'); ValueError('All NaN partition encountered') for ffill / bfill(limit=None) only if a partition other than the "
    "first (ffill) / last (bfill) is empty or has an all-NaN column. Every path is replayed natively.")
ASSUMPTIONS = [
    "known divisions, sorted unique index (RangeIndex-like int64 or DatetimeIndex); empty partitions arise from a boolean filter (divisions stay known)",
    "data are integer-valued floats (NaN allowed), so sums / products / means are exact and independent of the order of accumulation",
    "kernel (1)/(2): a partition is modelled as the interval of global row numbers it holds; pandas' tail(n) / head(n) (n >= 0), concat and "
    "iloc[a:b] are transcribed for intervals (iloc via PySlice_AdjustIndices); the user function is length-preserving (one output row per input row)",
    "kernel (3): object-dtype Series of Python ints follow the same dask code path as numeric Series (no NaN in the symbolic values: NaN "
    "handling is covered by the enumerated obligations)",
    "documented refusals are not failures: NotImplementedError when a neighbour partition is shorter than the overlap, ValueError for an "
    "all-NaN partition in ffill / bfill(limit=None); but they must not be raised outside their documented condition",
    "dask.dataframe is imported with a stub `pyarrow` package (absent from the sandbox)",
]
STUBS = [
    "stub pyarrow package for import",
    "dask.dataframe.dask_expr._expr.len -> shim that returns the symbolic row count of an interval stand-in (builtin len otherwise); symbolic mode only",
    "dask.dataframe.dask_expr._rolling.int -> ShimInt (isinstance(window, int) with a symbolic window); symbolic mode only",
    "dask.dataframe.dask_expr._rolling.MapOverlap / RollingAggregation -> recorders of their constructor arguments (Expr.__new__ tokenizes, i.e. would "
    "concretise, the symbolic window); symbolic mode only, the native replay builds the real expressions",
    "interval stand-in `Rows` registered with dask.dataframe.dispatch.concat_dispatch (so that methods.concat accepts it, both modes)",
    "duck-typed `self` (SimpleNamespace) for CreateOverlappingPartitions._layer, RollingReduction._lower / _is_blockwise_op, Shift / Diff / FFill / "
    "BFill before / after and CumulativeFinalize._layer; a 12-line graph evaluator for the legacy tuple tasks these layers emit",
]
ENUM = [
    "number of partitions (all obligations)",
    "public-API obligations: every input is concretised (values pass through pandas / NumPy): rows per partition, NaN positions, window, "
    "min_periods, center, how, periods, limit, before / after, time gaps and time windows are solver-enumerated small ranges or Python loops "
    "inside a path",
    "kernel (3): partition lengths; the VALUES stay symbolic and unbounded",
]
OUTSIDE = [
    "pct_change: dask.dataframe of this tree has no pct_change (AttributeError), so nothing to decide",
    "time-based rolling with center=True: dask raises TypeError('unsupported operand type(s) for //') when lowering (a loud refusal, reported as an observation)",
    "rolling(closed=...), win_type, axis=1, groupby().rolling(), rolling.var / std / median / quantile / skew / kurt / cov / apply / agg (not exact in floats or per-window Python functions)",
    "shift(freq=...) (index arithmetic, no overlap), Index.shift, axis=1 variants (plain map_partitions)",
    "unknown divisions, unsorted or duplicated index values, user functions of map_overlap that change the number of rows (the `expansion` factor of overlap_chunk)",
    "values beyond integer-valued float64 (overflow, inf), other dtypes (object / string / categorical / nullable)",
    "more partitions / rows than the bounds of the tier; schedulers other than 'sync'",
    "MapOverlapAlign (map_overlap with additional dask frames that need alignment)",
]
BOUNDS = {
    "quick": dict(
        overlap_kernel="1..4 partitions; partition lengths, before, after: unbounded symbolic ints >= 0",
        window_arith="rolling (center False / True) on 2 and 3 partitions, shift on 3, diff / ffill / bfill on 2; partition lengths >= 0, window >= 0, "
                     "periods (any sign), limit >= 1 and the row r: unbounded symbolic ints",
        cumulative_symbolic="cumsum: 1..3 partitions, <= 4 rows; cumprod / cummin / cummax: 1..3 partitions, <= 3 rows; every split of the rows over the "
                            "partitions (empty partitions anywhere); values unbounded symbolic ints; skipna both ways",
        rolling_int="1..3 partitions, <= 4 rows (every split, empty partitions anywhere), 2 NaN patterns; every window 1..4 x center; min_periods in "
                    "{None, 1, 2, window} and the reduction in {sum, count, min, max, mean} cycle with the structure; Series / DataFrame / projection",
        rolling_time="1..3 partitions, <= 4 rows, 3 gap patterns (1..4 s), windows 1s 2s 3s 5s 7s (up to the whole frame), min_periods {None, 1, 2}; "
                     "map_overlap(Timedelta / str before)",
        cumulative="1..3 partitions, <= 3 rows, every NaN mask; 4 ops x skipna x {Series, 2-column DataFrame, 1-column DataFrame}",
        shift_diff="1..3 partitions, <= 4 rows, periods -3..3; DataFrame, Series, projection",
        fill="1..3 partitions, <= 4 rows, every NaN mask, limit in {None, 1, 2}; DataFrame / Series",
        map_overlap="1..3 partitions, <= 4 rows, before, after in 0..2, positional / keyword extra arguments, Series"),
    "thorough": dict(
        overlap_kernel="1..6 partitions",
        window_arith="rolling (both), shift, diff, ffill, bfill on 2..4 partitions",
        cumulative_symbolic="cumsum: 1..4 partitions, <= 5 rows; cumprod / cummin / cummax: 1..4 partitions, <= 4 rows",
        rolling_int="1..4 partitions, <= 6 rows, window 1..5",
        rolling_time="1..4 partitions, <= 6 rows, windows 1s 2s 3s 4s 5s 7s 9s",
        cumulative="1..4 partitions, <= 4 rows and 1..3 partitions, <= 5 rows, every NaN mask",
        shift_diff="1..4 partitions, <= 6 rows, periods -4..4",
        fill="1..4 partitions, <= 4 rows, limit in {None, 1, 2, 3} and 1..3 partitions, <= 5 rows, limit in {None, 1..4}; every NaN mask",
        map_overlap="1..4 partitions, <= 6 rows, before, after in 0..3"),
}


def functions():
    return [EX.CreateOverlappingPartitions._layer, EX._combined_parts, EX._overlap_chunk, RO.overlap_chunk, EX._tail_timedelta, RO._head_timedelta,
            EX.MapOverlap._lower, RL.RollingReduction._lower, RL.RollingReduction._is_blockwise_op.fget, RL._rolling_agg,
            EX.Shift.before.fget, EX.Shift.after.fget, EX.Diff.before.fget, EX.Diff.after.fget, EX.FFill.before.fget, EX.FFill.after.fget,
            EX.BFill.before.fget, EX.BFill.after.fget, CU.CumulativeAggregations._lower, CU.CumulativeFinalize._layer, CU.cumulative_wrapper,
            CU.cumulative_wrapper_intermediate, CU.TakeLast.operation, methods._cum_aggregate_apply, methods.cumsum_aggregate,
            methods.cumprod_aggregate, methods.cummin_aggregate, methods.cummax_aggregate, methods.fillna_check, CO.map_overlap,
            CO.FrameBase.ffill, CO.FrameBase.bfill, CO.FrameBase.shift, CO.FrameBase.diff]


# ==========================================================================================================================================
# symbolic helpers

def _eng():
    return core.ENG


def _and(xs):
    r = True
    for x in xs:
        r = r & x
    return r


def _or(xs):
    r = False
    for x in xs:
        r = r | x
    return r


def _not(x):
    return ~x if isinstance(x, SBool) else (not x)


def smax(a, b):
    return _eng().ite(lambda: a >= b, a, b)


def smin(a, b):
    return _eng().ite(lambda: a <= b, a, b)


def _tot(xs):
    s = 0
    for x in xs:
        s = s + x
    return s


def _starts(lens):
    out = [0]
    for x in lens:
        out.append(out[-1] + x)
    return out


# ==========================================================================================================================================
# (1) interval stand-in for a pandas object: which rows of the unpartitioned frame it holds

class Rows:
    """rows of the unpartitioned frame, as consecutive segments [lo, hi) of global row numbers (lo <= hi; symbolic or plain ints).
    ctx: for the result of the user function, the frame it was computed from"""

    def __init__(self, segs, ctx=None):
        self.segs = [tuple(s) for s in segs]
        self.ctx = ctx

    def nrows(self):
        return _tot(hi - lo for lo, hi in self.segs)

    @property
    def shape(self):
        return (self.nrows(),)

    def __len__(self):
        return operator.index(self.nrows())

    def tail(self, n):
        """pandas: the last n rows (n >= 0), all of them when there are fewer"""
        (lo, hi), = self.segs
        if n >= hi - lo:
            return Rows([(lo, hi)])
        return Rows([(hi - n, hi)])

    def head(self, n):
        (lo, hi), = self.segs
        if n >= hi - lo:
            return Rows([(lo, hi)])
        return Rows([(lo, lo + n)])

    @property
    def iloc(self):
        return _ILoc(self)

    def take(self, a, b):
        """positions [a, b) (0 <= a, b <= nrows; empty when b <= a)"""
        out, off = [], 0
        for lo, hi in self.segs:
            n = hi - lo
            s = smin(smax(a - off, 0), n)
            t = smin(smax(b - off, 0), n)
            t = smax(s, t)
            out.append((lo + s, lo + t))
            off = off + n
        return Rows(out, self.ctx)

    def obs(self):
        return [tuple(s) for s in self.segs]


class _ILoc:
    def __init__(self, rows):
        self.rows = rows

    def __getitem__(self, sl):
        if not isinstance(sl, slice):
            raise HarnessError("Rows.iloc supports slices only")
        start, stop, step = py_indices(sl, self.rows.nrows())
        if step != 1:
            raise HarnessError("Rows.iloc: step")
        return self.rows.take(start, stop)


@concat_dispatch.register(Rows)
def _concat_rows(dfs, **kwargs):
    return Rows([s for d in dfs for s in d.segs])


def _sym_len(x):
    if isinstance(x, Rows):
        return x.nrows()
    return len(x)


def _same_rows(x):
    """the length-preserving user function: one output row per input row, remembering the frame it saw"""
    return Rows(x.segs, ctx=x)


def evaluate(dsk, key, ext):
    """minimal evaluator for the legacy tuple tasks these layers emit; `ext`: values of keys that are not in the layer"""
    def ev(x):
        if isinstance(x, tuple) and x and callable(x[0]):
            return x[0](*[ev(a) for a in x[1:]])
        if isinstance(x, list):
            return [ev(a) for a in x]
        if isinstance(x, tuple) and x and isinstance(x[0], str):
            if x in dsk:
                return ev(dsk[x])
            if x in ext:
                return ext[x]
        return x
    return ev(dsk[key])


def _is_exact(rows, lo, hi):
    """(lazy) the non-empty segments of rows are consecutive and cover exactly [lo, hi)"""
    conds, pos = [], lo
    for a, b in rows.segs:
        conds.append((b <= a) | (a == pos))
        pos = pos + smax(b - a, 0)
    conds.append(pos == hi)
    return _and(conds)


def run_overlap(e, lens, before, after):
    """the real layer + _combined_parts + _overlap_chunk on interval partitions.  returns None when NotImplementedError was raised, else
    per partition (result rows, rows seen by the user function)"""
    n = len(lens)
    S = _starts(lens)
    fake = types.SimpleNamespace(frame=types.SimpleNamespace(npartitions=n, _name="src", divisions=tuple(range(n + 1))),
                                 before=before, after=after, _name="ovl")
    dsk = EX.CreateOverlappingPartitions._layer(fake)
    ext = {("src", i): Rows([(S[i], S[i + 1])]) for i in range(n)}
    e.check(sorted(k for k in dsk if k[0] == "ovl") == [("ovl", i) for i in range(n)], "the overlap layer does not have one output per partition")
    out = []
    try:
        for i in range(n):
            comb = evaluate(dsk, ("ovl", i), ext)
            e.check(isinstance(comb, RO.CombinedOutput), "overlapped partition is not a CombinedOutput")
            res = EX._overlap_chunk(comb, _same_rows, before, after)
            out.append((res, res.ctx))
    except NotImplementedError:
        return None
    return out


def _short(lens, need_before, need_after):
    """(lazy) some partition that has to lend rows is shorter than what is needed"""
    n = len(lens)
    return _or([(need_before > lens[j]) for j in range(n - 1)] + [(need_after > lens[j]) for j in range(1, n)])


def _patch_overlap():
    return patched((EX, "len", _sym_len), (RL, "int", INT_SHIM), (RL, "MapOverlap", _RecMapOverlap), (RL, "RollingAggregation", _RecRollingAggregation))


def _clamp_model(vals, cap=6):
    return [max(0, min(cap, int(v))) for v in vals]


def mk_overlap_kernel(n):
    def setup(e):
        lens = [e.int(f"L{i}", 0) for i in range(n)]
        before = e.int("before", 0)
        after = e.int("after", 0)
        return lens, before, after

    def run(e, lens, before, after):
        S = _starts(lens)
        out = run_overlap(e, lens, before, after)
        if out is None:
            e.check(lambda: _short(lens, before, after),
                    "NotImplementedError('Partition size is less than overlapping window size') although every neighbour has at least before / after rows")
            return "NotImplementedError"
        e.check(lambda: _not(_short(lens, before, after)), "a neighbour partition is shorter than the overlap but no NotImplementedError was raised")
        for i, (res, ctx) in enumerate(out):
            lo = S[i] - (before if i > 0 else 0)
            hi = S[i + 1] + (after if i < n - 1 else 0)
            e.check(lambda: _is_exact(ctx, lo, hi), f"partition {i}: the frame handed to the function is not rows [start - before, end + after)")
            e.check(lambda: _is_exact(res, S[i], S[i + 1]), f"partition {i}: the trimmed result is not exactly the partition's own rows")
        return [(r.obs(), c.obs()) for r, c in out]

    def e2e(model):
        lens = _clamp_model([model[f"L{i}"] for i in range(n)], 4)
        before, after = _clamp_model([model["before"], model["after"]], 3)
        ddf, pdf = build(lens, [False] * sum(lens))
        label = f"map_overlap(shift-sum, {before}, {after}) sizes={lens}"
        decide_public(None, label, lambda: ddf.map_overlap(_shift_sum, before, after, b=before, a=after), lambda: _shift_sum(pdf, before, after),
                      nie=_py_short(lens, before, after))

    return Obligation(f"overlap_kernel[np={n}]", setup, run, patches=_patch_overlap, e2e=e2e, e2e_every=7)


# ==========================================================================================================================================
# (2) window arithmetic composed with the overlap kernel

def _real_frame_expr(n):
    pdf = pd.DataFrame({"a": [float(i) for i in range(2 * n)]})
    return dd.from_pandas(pdf, npartitions=n).expr


class _Rec:
    """recorder standing in for an expression class whose constructor would tokenize (i.e. concretise) its symbolic operands"""

    def __init__(self, *args, **kw):
        self.args, self.kw = args, kw

    def operand(self, k):
        return self.kw[k]

    frame = property(lambda s: s.kw["frame"])
    func = property(lambda s: s.kw["func"])
    before = property(lambda s: s.kw["before"])
    after = property(lambda s: s.kw["after"])


class _RecMapOverlap(_Rec):
    pass


class _RecRollingAggregation(_Rec):
    pass


def _overlap_of(e, kind, par, center, n):
    """(before, after) as computed by the real expression classes, or None when the operation is declared blockwise"""
    if kind == "rolling":
        fake = types.SimpleNamespace(window=par, kwargs={"center": bool(center), "min_periods": None, "win_type": None},
                                     frame=_real_frame_expr(n), how="sum", how_args=(), how_kwargs=None, groupby_kwargs=None, groupby_slice=None,
                                     _meta=pd.DataFrame({"a": pd.Series([], dtype="f8")}))
        fake._is_blockwise_op = RL.RollingReduction._is_blockwise_op.fget(fake)
        low = RL.RollingReduction._lower(fake)
        if isinstance(low, (RL.RollingAggregation, _RecRollingAggregation)):
            return None
        e.check(isinstance(low, (EX.MapOverlap, _RecMapOverlap)), "rolling does not lower to MapOverlap")
        e.check(low.func is RL._rolling_agg and low.frame is fake.frame, "rolling lowers to MapOverlap on another frame / function")
        kw = low.operand("kwargs")
        e.check(kw["window"] is par and kw["kwargs"] == fake.kwargs and kw["how"] == "sum", "rolling parameters not forwarded to the partition function")
        return low.before, low.after
    cls = {"shift": EX.Shift, "diff": EX.Diff, "ffill": EX.FFill, "bfill": EX.BFill}[kind]
    fake = types.SimpleNamespace(periods=par, limit=par, freq=None)
    if kind == "bfill":
        # BFill swaps FFill's properties through super(): needs a real class instance, built without running Expr.__new__ (no tokenization)
        inst = object.__new__(EX.BFill)
        inst.operands = [None, par]
        return inst.before, inst.after
    return cls.before.fget(fake), cls.after.fget(fake)


def _need(kind, par, center, r):
    """rows pandas reads for row r: [r - nb, r + na]; returns (nb, na) (independent of the implementation: pandas' definitions)"""
    if kind == "rolling":
        off = (par - 1) // 2 if center else 0
        return par - 1 - off, off
    if kind in ("shift", "diff"):
        return smax(par, 0), smax(-par, 0)
    if kind == "ffill":
        return par, 0
    return 0, par


def mk_window_arith(kind, n, center=False):
    def setup(e):
        lens = [e.int(f"L{i}", 0) for i in range(n)]
        if kind == "rolling":
            par = e.int("window", 0)
        elif kind in ("shift", "diff"):
            par = e.int("periods")
        else:
            par = e.int("limit", 1)
        i = e.choice("part", n)
        r = e.int("r", 0)
        S = _starts(lens)
        e.assume(lambda: (r >= S[i]) & (r < S[i + 1]))
        return lens, par, i, r

    def run(e, lens, par, i, r):
        S = _starts(lens)
        N = S[-1]
        ba = _overlap_of(e, kind, par, center, n)
        nb, na = _need(kind, par, center, r)
        if ba is None:
            # declared blockwise: every partition is computed on its own rows, which is right only if pandas reads nothing else
            e.check(lambda: (smax(r - nb, 0) >= S[i]) & (smin(r + na, N - 1) < S[i + 1]),
                    "the operation is computed partition by partition although pandas reads rows of a neighbouring partition")
            return "blockwise"
        before, after = ba
        e.check(lambda: (before >= 0) & (after >= 0), "negative overlap")
        out = run_overlap(e, lens, before, after)
        if out is None:
            e.check(lambda: _short(lens, nb, na), "NotImplementedError although every lending neighbour holds all the rows pandas needs")
            return "NotImplementedError"
        res, ctx = out[i]
        e.check(lambda: _is_exact(res, S[i], S[i + 1]), "the trimmed result is not exactly the partition's own rows")
        lo, hi = smax(r - nb, 0), smin(r + na, N - 1)

        def covered():
            # ctx is contiguous (kernel 1): its extent is [first non-empty lo, last non-empty hi)
            first = S[i] - (before if i > 0 else 0)
            last = S[i + 1] + (after if i < n - 1 else 0)
            return _is_exact(ctx, first, last) & (first <= lo) & (hi < last)
        e.check(covered, f"{kind}: a row pandas reads for row r is not in the frame the partition's task sees")
        return [res.obs(), ctx.obs()]

    def e2e(model):
        lens = _clamp_model([model[f"L{i}"] for i in range(n)], 4)
        if kind == "rolling":
            w = max(0, min(5, model["window"]))
            ddf, pdf = build(lens, [False] * sum(lens))
            nb, na = (w - 1 - (w - 1) // 2, (w - 1) // 2) if center else (w - 1, 0)
            decide_public(None, f"rolling({w}, center={center}).sum sizes={lens}", lambda: ddf.rolling(w, center=center).sum(),
                          lambda: pdf.rolling(w, center=center).sum(), nie=len(lens) > 1 and w > 1 and _py_short(lens, nb, na))
        elif kind in ("shift", "diff"):
            p = max(-4, min(4, model["periods"]))
            ddf, pdf = build(lens, [False] * sum(lens))
            decide_public(None, f"{kind}({p}) sizes={lens}", lambda: getattr(ddf, kind)(p), lambda: getattr(pdf, kind)(p),
                          nie=_py_short(lens, max(p, 0), max(-p, 0)))
        else:
            lim = max(1, min(4, model["limit"]))
            mask = [(k % 3) != 0 for k in range(sum(lens))]
            ddf, pdf = build(lens, mask)
            decide_public(None, f"{kind}(limit={lim}) sizes={lens}", lambda: getattr(ddf, kind)(limit=lim), lambda: getattr(pdf, kind)(limit=lim),
                          nie=_py_short(lens, lim if kind == "ffill" else 0, lim if kind == "bfill" else 0))

    return Obligation(f"window_arith[{kind}{',center' if center else ''},np={n}]", setup, run, patches=_patch_overlap, e2e=e2e, e2e_every=5)


# ==========================================================================================================================================
# public API: frames, comparison

VALS = (3.0, 1.0, 4.0, 1.0, 5.0, 9.0, 2.0, 6.0, 5.0, 3.0, 5.0, 8.0)
BVALS = (2.0, 7.0, 1.0, 8.0, 2.0, 8.0, 1.0, 8.0, 2.0, 8.0, 4.0, 5.0)
GAPS = ((1, 1, 1, 1, 1, 1, 1, 1, 1, 1, 1, 1), (1, 3, 1, 2, 4, 1, 1, 3, 2, 1, 4, 1), (2, 1, 4, 1, 1, 3, 1, 2, 2, 4, 1, 1))
T0 = pd.Timestamp("2021-03-04 05:06:07")


def structure(e, maxnp, maxn):
    """solver-enumerated partition structure: 1..maxnp partitions, <= maxn rows in total, empty partitions allowed"""
    np_ = 1 + e.choice("np", maxnp)
    sizes, left = [], maxn
    for i in range(np_):
        s = e.choice(f"n{i}", left + 1)
        sizes.append(s)
        left -= s
    return sizes


def nan_mask(e, n):
    return [e.flag(f"nan{k}") for k in range(n)]


def nan_run(e, n):
    """one run of NaN [start, start+len) (len 0: none)"""
    if n == 0:
        return []
    ln = e.choice("nanlen", n + 1)
    st = e.choice("nanstart", n - ln + 1) if ln else 0
    return [st <= k < st + ln for k in range(n)]


def build(sizes, mask, gaps=None):
    """(dask frame, pandas frame) with columns a (NaN where mask), b (no NaN); partition i holds sizes[i] rows.  A partition with 0 rows is
    made the way users get one: it holds a filler row that a boolean filter removes (divisions stay known).  Two constructions, chosen by the
    parity of the row count: from_map with explicit divisions / from_pandas + repartition(divisions=...)."""
    rows, cuts, k = [], [], 0
    for s in sizes:
        cuts.append(len(rows))
        if s == 0:
            rows.append((np.nan, 0.0, False))
        for _ in range(s):
            rows.append((np.nan if mask[k] else VALS[k % len(VALS)], BVALS[k % len(BVALS)], True))
            k += 1
    n = len(rows)
    if gaps is None:
        idx = pd.Index(range(100, 100 + n), dtype="int64")
    else:
        secs = np.cumsum([gaps[j % len(gaps)] for j in range(n)])
        idx = pd.DatetimeIndex([T0 + pd.Timedelta(seconds=int(s)) for s in secs])
    base = pd.DataFrame({"a": [r[0] for r in rows], "b": [r[1] for r in rows], "keep": [r[2] for r in rows]}, index=idx)
    ends = cuts[1:] + [n]
    parts = [base.iloc[c:t] for c, t in zip(cuts, ends)]
    divs = [p.index[0] for p in parts] + [parts[-1].index[-1]]
    with warnings.catch_warnings():
        warnings.simplefilter("ignore")
        if k % 2 == 0:
            ddf = dd.from_map(_Part(parts), range(len(parts)), meta=base.iloc[:0], divisions=divs)
        else:
            ddf = dd.from_pandas(base, npartitions=1).repartition(divisions=divs)
    if tuple(ddf.divisions) != tuple(divs) or ddf.npartitions != len(sizes):
        raise HarnessError(f"could not build partitions {sizes}: divisions {ddf.divisions}")
    if not all(sizes):
        ddf = ddf[ddf.keep]
        pdf = base[base.keep]
    else:
        pdf = base
    return ddf[["a", "b"]], pdf[["a", "b"]]


class _Part:
    def __init__(self, parts):
        self.parts = parts

    def __call__(self, i):
        return self.parts[i]


def same(got, want):
    """exact comparison; returns None or a description of the first difference"""
    if type(got) is not type(want):
        return f"type {type(got).__name__} vs pandas {type(want).__name__}"
    if len(got) != len(want):
        return f"{len(got)} rows vs pandas {len(want)}"
    if got.index.dtype != want.index.dtype or not got.index.equals(want.index):
        return f"index {list(got.index)[:8]} vs pandas {list(want.index)[:8]}"
    if isinstance(want, pd.DataFrame):
        if list(got.columns) != list(want.columns):
            return f"columns {list(got.columns)} vs pandas {list(want.columns)}"
        if list(got.dtypes) != list(want.dtypes):
            return f"dtypes {list(got.dtypes)} vs pandas {list(want.dtypes)}"
    else:
        if got.name != want.name:
            return f"name {got.name!r} vs pandas {want.name!r}"
        if got.dtype != want.dtype:
            return f"dtype {got.dtype} vs pandas {want.dtype}"
    if not got.equals(want):
        return f"values {np.asarray(got).tolist()} vs pandas {np.asarray(want).tolist()}"
    return None


NIE_MSG = "Partition size is less than overlapping"
ALLNAN_MSG = "All NaN partition encountered"


def _py_short(sizes, nb, na):
    n = len(sizes)
    return any(nb > sizes[j] for j in range(n - 1)) or any(na > sizes[j] for j in range(1, n))


def decide_public(e, label, dask_fn, pandas_fn, nie=False, allnan=False):
    """compute both sides; an exception of dask is accepted only if it is a documented refusal whose condition (nie / allnan) holds.
    e is None inside e2e witnesses (raise Violation directly)"""
    res, problem = _outcome(label, dask_fn, pandas_fn, nie, allnan)
    if e is None:
        if problem is not None:
            raise Violation(problem)
    else:
        e.check(problem is None, problem or "")
    return res


def _outcome(label, dask_fn, pandas_fn, nie, allnan):
    with warnings.catch_warnings():
        warnings.simplefilter("ignore")
        want = pandas_fn()
        try:
            got = dask_fn().compute(scheduler="sync")
        except NotImplementedError as ex:
            if NIE_MSG in str(ex) and nie:
                return "NotImplementedError", None
            return "bad", f"{label}: NotImplementedError({str(ex)[:60]!r}) although every lending neighbour partition is long enough"
        except ValueError as ex:
            if ALLNAN_MSG in str(ex) and allnan:
                return "ValueError", None
            return "bad", f"{label}: unexpected ValueError: {str(ex)[:120]}"
        except (Violation, HarnessError):
            raise
        except Exception as ex:
            return "bad", f"{label}: unexpected {type(ex).__name__}: {str(ex)[:120]}"
    d = same(got, want)
    if d is not None:
        return "bad", f"{label}: differs from pandas on the unpartitioned frame: {d}"
    return "ok", None


def _shift_sum(df, b=0, a=0, c=0):
    """a function that reads exactly b rows back and a rows ahead"""
    return df.shift(b) + 2 * df.shift(-a) + c


# ==========================================================================================================================================
# (4) public API obligations

def mk_public(name, setup, body):
    def run(e, *args):
        out = []
        body(e, out, *args)
        return out
    return Obligation(name, setup, run)


HOWS = ("sum", "count", "min", "max", "mean")
NAN_PATTERNS = (lambda k: k % 3 == 1, lambda k: k % 4 in (1, 2))


def ob_rolling_int(P, N, W):
    """every (window, center) on every structure; min_periods and the reduction cycle with the structure"""
    def setup(e):
        sizes = structure(e, P, N)
        pat = e.choice("nanpat", len(NAN_PATTERNS))
        return sizes, pat

    def body(e, out, sizes, pat):
        mask = [NAN_PATTERNS[pat](k) for k in range(sum(sizes))]
        ddf, pdf = build(sizes, mask)
        k = sum(sizes) + 2 * len(sizes) + pat
        for w in range(1, W + 1):
            mps = [None, 1, w] + ([2] if w > 2 else [])
            for c in (False, True):
                off = (w - 1) // 2 if c else 0
                nie = len(sizes) > 1 and w > 1 and _py_short(sizes, w - 1 - off, off)
                how = HOWS[k % len(HOWS)]
                mp = mps[k % len(mps)]
                k += 1
                kw = dict(min_periods=mp, center=c)
                lab = f"rolling({w}, min_periods={mp}, center={c}).{how} sizes={sizes} nan={mask}"
                if k % 3 == 0:
                    out.append(decide_public(e, lab + " (Series)", lambda: getattr(ddf.a.rolling(w, **kw), how)(), lambda: getattr(pdf.a.rolling(w, **kw), how)(), nie=nie))
                else:
                    out.append(decide_public(e, lab, lambda: getattr(ddf.rolling(w, **kw), how)(), lambda: getattr(pdf.rolling(w, **kw), how)(), nie=nie))
        # projection after the window operation (the optimizer pushes it below)
        w = 2 + k % (W - 1)
        nie = len(sizes) > 1 and _py_short(sizes, w - 1, 0)
        out.append(decide_public(e, f"rolling({w}).sum()['a'] sizes={sizes}", lambda: ddf.rolling(w).sum()["a"], lambda: pdf.rolling(w).sum()["a"], nie=nie))

    return mk_public(f"rolling_int[np<={P},n<={N},w<={W}]", setup, body)


def ob_rolling_time(P, N, WINS):
    def setup(e):
        sizes = structure(e, P, N)
        g = e.choice("gaps", len(GAPS))
        return sizes, g

    def body(e, out, sizes, g):
        mask = [NAN_PATTERNS[0](k) for k in range(sum(sizes))]
        ddf, pdf = build(sizes, mask, GAPS[g])
        k = sum(sizes) + len(sizes) + g
        for w in WINS:
            win = f"{w}s"
            how = HOWS[k % len(HOWS)]
            mp = (None, 2, 1)[k % 3]
            k += 1
            lab = f"rolling('{win}', min_periods={mp}).{how} sizes={sizes} gaps={g} nan={mask}"
            if k % 3 == 0:
                out.append(decide_public(e, "a." + lab, lambda: getattr(ddf.a.rolling(win, min_periods=mp), how)(), lambda: getattr(pdf.a.rolling(win, min_periods=mp), how)()))
            else:
                out.append(decide_public(e, lab, lambda: getattr(ddf.rolling(win, min_periods=mp), how)(), lambda: getattr(pdf.rolling(win, min_periods=mp), how)()))
            # the same look-back window through the generic entry point, Timedelta and string spelling
            if k % 2:
                td = pd.Timedelta(seconds=w)
                out.append(decide_public(e, f"map_overlap(rolling('{win}').sum, Timedelta({w}s), 0) sizes={sizes} gaps={g}",
                                         lambda: ddf.map_overlap(_roll_sum, td, 0, win=win), lambda: _roll_sum(pdf, win)))
            else:
                out.append(decide_public(e, f"map_overlap(rolling('{win}').count, '{win}', 0) sizes={sizes} gaps={g}",
                                         lambda: ddf.map_overlap(_roll_count, win, 0, win=win), lambda: _roll_count(pdf, win)))

    return mk_public(f"rolling_time[np<={P},n<={N},w in {list(WINS)}s]", setup, body)


def _roll_sum(df, win=None):
    return df.rolling(win).sum()


def _roll_count(df, win=None):
    return df.rolling(win).count()


# ---- cumulative: known-defect regions of the unchanged tree (see the header of this file and the final report)

def _cum_flags(sizes, mask):
    """structural facts that name the regions in which dask's cumulative operations are wrong on the unchanged tree (model variables of the
    cumulative obligations, so that known-finding predicates can be stated over them)"""
    n = len(sizes)
    parts, k = [], 0
    for s in sizes:
        parts.append(mask[k:k + s])
        k += s
    allnan = [len(p) > 0 and all(p) for p in parts]          # non-empty and column a all NaN
    return dict(
        cum_multi=int(n >= 2),                                                       # more than one partition
        cum_first_empty=int(n >= 3 and sizes[0] == 0),                               # the first of >= 3 partitions is empty
        cum_first_hole=int(n >= 2 and (sizes[0] == 0 or allnan[0])),                 # the first of >= 2 partitions is empty or all NaN
        cum_empty_nonlast=int(any(s == 0 for s in sizes[:-1])),                      # a partition other than the last is empty
        cum_allnan_nonlast=int(any(allnan[:-1])),                                    # a partition other than the last is non-empty and all NaN
        cum_nan_middle=int(n >= 3 and any(any(p) for p in parts[1:-1])),             # NaN in a partition that is neither first nor last
    )


def _cum_known(kind, op, skipna, f):
    """is (kind, op, skipna) inside a known-defect region of the unchanged tree for a frame with flags f?  (see the defect list in the report:
    TakeLast.operation / CumulativeFinalize._layer / methods.cummin_aggregate, cummax_aggregate)"""
    minmax = op in ("cummin", "cummax")
    hole = f["cum_empty_nonlast"] or f["cum_allnan_nonlast"]
    if kind == "series":
        if not minmax:
            return False if skipna else bool(f["cum_first_empty"])
        return bool(f["cum_first_hole"]) if skipna else bool(f["cum_first_empty"] or f["cum_nan_middle"])
    if kind == "frame":
        return bool(hole) if skipna else bool(f["cum_empty_nonlast"])
    # one-column DataFrame
    if minmax:
        return bool(f["cum_multi"])
    return bool(f["cum_allnan_nonlast"] or f["cum_first_empty"]) if skipna else bool(f["cum_first_empty"])


CUM_OPS = ("cumsum", "cumprod", "cummin", "cummax")


def ob_cumulative(P, N):
    def setup(e):
        sizes = structure(e, P, N)
        mask = nan_mask(e, sum(sizes))
        f = _cum_flags(sizes, mask)
        for nm, v in f.items():        # model variables naming the known-defect regions
            var = e.int(nm, 0, 1)
            e.assume(lambda: var == v)
        return sizes, mask

    def body(e, out, sizes, mask):
        ddf, pdf = build(sizes, mask)
        f = _cum_flags(sizes, mask)
        sel = {"series": lambda x: x.a, "frame": lambda x: x, "onecol": lambda x: x[["a"]]}
        # two passes: first every variant OUTSIDE the regions of the open known finding C46-cumulative-holes, then (last, so that the clauses
        # above are also decided on such inputs) the variants inside them; a path has such a variant iff cum_multi == 1
        for inside in (False, True):
            for kind in ("series", "frame", "onecol"):
                for op in CUM_OPS:
                    for sk in (True, False):
                        if bool(_cum_known(kind, op, sk, f)) != inside:
                            continue
                        lab = f"{kind}.{op}(skipna={sk}) sizes={sizes} nan={mask}"
                        out.append(decide_public(e, lab, lambda: getattr(sel[kind](ddf), op)(skipna=sk), lambda: getattr(sel[kind](pdf), op)(skipna=sk)))

    return mk_public(f"cumulative[np<={P},n<={N}]", setup, body)


def ob_shift_diff(P, N, PER):
    def setup(e):
        sizes = structure(e, P, N)
        return (sizes,)

    def body(e, out, sizes):
        n = sum(sizes)
        mask = [k % 4 == 2 for k in range(n)]
        ddf, pdf = build(sizes, mask)
        k = n + len(sizes)
        for p in range(-PER, PER + 1):
            nie = _py_short(sizes, max(p, 0), max(-p, 0))
            lab = f"({p}) sizes={sizes}"
            out.append(decide_public(e, "shift" + lab, lambda: ddf.shift(p), lambda: pdf.shift(p), nie=nie))
            out.append(decide_public(e, "diff" + lab, lambda: ddf.diff(p), lambda: pdf.diff(p), nie=nie))
            k += 1
            if k % 3 == 0:
                out.append(decide_public(e, "a.shift" + lab, lambda: ddf.a.shift(p), lambda: pdf.a.shift(p), nie=nie))
            elif k % 3 == 1:
                out.append(decide_public(e, "a.diff" + lab, lambda: ddf.a.diff(p), lambda: pdf.a.diff(p), nie=nie))
            else:
                out.append(decide_public(e, "shift()['b']" + lab, lambda: ddf.shift(p)["b"], lambda: pdf.shift(p)["b"], nie=nie))

    return mk_public(f"shift_diff[np<={P},n<={N},|periods|<={PER}]", setup, body)


def ob_fill(P, N, LIM):
    def setup(e):
        sizes = structure(e, P, N)
        mask = nan_mask(e, sum(sizes))
        return sizes, mask

    def body(e, out, sizes, mask):
        ddf, pdf = build(sizes, mask)
        parts, k = [], 0
        for s in sizes:
            parts.append(mask[k:k + s])
            k += s
        hole = [all(p) for p in parts]          # empty, or column a all NaN
        k = sum(sizes) + len(sizes) + sum(mask)
        for lim in (None,) + tuple(range(1, LIM + 1)):
            if lim is None:
                f_nie, b_nie = _py_short(sizes, 1, 0), _py_short(sizes, 0, 1)
                f_nan, b_nan = any(hole[1:]), any(hole[:-1])
            else:
                f_nie, b_nie = _py_short(sizes, lim, 0), _py_short(sizes, 0, lim)
                f_nan = b_nan = False
            lab = f"(limit={lim}) sizes={sizes} nan={mask}"
            k += 1
            if k % 3:
                out.append(decide_public(e, "ffill" + lab, lambda: ddf.ffill(limit=lim), lambda: pdf.ffill(limit=lim), nie=f_nie, allnan=f_nan))
                out.append(decide_public(e, "bfill" + lab, lambda: ddf.bfill(limit=lim), lambda: pdf.bfill(limit=lim), nie=b_nie, allnan=b_nan))
            else:
                out.append(decide_public(e, "a.ffill" + lab, lambda: ddf.a.ffill(limit=lim), lambda: pdf.a.ffill(limit=lim), nie=f_nie, allnan=f_nan))
                out.append(decide_public(e, "a.bfill" + lab, lambda: ddf.a.bfill(limit=lim), lambda: pdf.a.bfill(limit=lim), nie=b_nie, allnan=b_nan))

    return mk_public(f"fill[np<={P},n<={N},limit<={LIM}]", setup, body)


def ob_map_overlap(P, N, B):
    def setup(e):
        sizes = structure(e, P, N)
        return (sizes,)

    def body(e, out, sizes):
        n = sum(sizes)
        mask = [k % 5 == 3 for k in range(n)]
        ddf, pdf = build(sizes, mask)
        k = n + len(sizes)
        for b in range(B + 1):
            for a in range(B + 1):
                nie = _py_short(sizes, b, a)
                lab = f"map_overlap(f, {b}, {a}) sizes={sizes}"
                k += 1
                if k % 3 == 0:
                    out.append(decide_public(e, lab, lambda: ddf.map_overlap(_shift_sum, b, a, b, a), lambda: _shift_sum(pdf, b, a), nie=nie))
                elif k % 3 == 1:
                    out.append(decide_public(e, lab + " kwargs", lambda: ddf.map_overlap(_shift_sum, b, a, b=b, a=a, c=7), lambda: _shift_sum(pdf, b, a, 7), nie=nie))
                else:
                    out.append(decide_public(e, lab + " Series", lambda: ddf.a.map_overlap(_shift_sum, b, a, b, a=a), lambda: _shift_sum(pdf.a, b, a), nie=nie))
        # the function may read fewer rows than it is given
        out.append(decide_public(e, f"map_overlap(diff, 2, 1) sizes={sizes}", lambda: ddf.map_overlap(_diff1, 2, 1), lambda: _diff1(pdf), nie=_py_short(sizes, 2, 1)))

    return mk_public(f"map_overlap[np<={P},n<={N},overlap<={B}]", setup, body)


def _diff1(df):
    return df.diff(1)


# ==========================================================================================================================================
# (3) cumulative kernel with symbolic values

def _obj_series(vals, start):
    return pd.Series(list(vals), index=pd.RangeIndex(start, start + len(vals)), dtype=object)


CUM_CLS = {"cumsum": CU.CumSum, "cumprod": CU.CumProd, "cummin": CU.CumMin, "cummax": CU.CumMax}


def _ref_cum(op, xs):
    out, acc = [], None
    for x in xs:
        if acc is None:
            acc = x
        elif op == "cumsum":
            acc = acc + x
        elif op == "cumprod":
            acc = acc * x
        elif op == "cummin":
            acc = x if x < acc else acc
        else:
            acc = x if x > acc else acc
        out.append(acc)
    return out


def ob_cum_symbolic(P, N, ops):
    def setup(e):
        sizes = structure(e, P, N)
        f = _cum_flags(sizes, [False] * sum(sizes))
        for nm, v in f.items():
            var = e.int(nm, 0, 1)
            e.assume(lambda: var == v)
        xs = [e.int(f"x{k}") for k in range(sum(sizes))]
        return sizes, xs

    def body(e, out, sizes, xs):
        f = _cum_flags(sizes, [False] * len(xs))
        S = _starts(sizes)
        parts = [_obj_series(xs[S[i]:S[i + 1]], S[i]) for i in range(len(sizes))]
        for op in ops:
            cls = CUM_CLS[op]
            for sk in (True, False):
                if SKIP_KNOWN and _cum_known("series", op, sk, f):
                    out.append("known")
                    continue
                chunk = {("chunk", i): cls.chunk_operation(p, skipna=sk) for i, p in enumerate(parts)}
                last = {("last", i): CU.TakeLast.operation(chunk[("chunk", i)], skipna=sk) for i in range(len(parts))}
                fake = types.SimpleNamespace(frame=types.SimpleNamespace(_name="chunk", npartitions=len(parts)),
                                             previous_partitions=types.SimpleNamespace(_name="last"), _name="fin",
                                             aggregator=cls.aggregate_operation, neutral_element=cls.neutral_element)
                dsk = CU.CumulativeFinalize._layer(fake)
                ext = dict(chunk)
                ext.update(last)
                e.check(sorted(k for k in dsk if k[0] == "fin") == [("fin", i) for i in range(len(parts))], "cumulative layer: wrong output keys")
                got = []
                for i in range(len(parts)):
                    r = evaluate(dsk, ("fin", i), ext)
                    e.check(isinstance(r, pd.Series) and len(r) == sizes[i], f"{op}: partition {i} has the wrong length")
                    e.check(list(r.index) == list(parts[i].index), f"{op}: partition {i} changed its index")
                    got += list(r)
                want = _ref_cum(op, xs)
                e.check(lambda: e.equal(got, want), f"{op}(skipna={sk}) sizes={sizes}: differs from the running {op[3:]} of the concatenated sequence")
                out.append((op, sk, got))

    return mk_public(f"cumulative_symbolic[{'+'.join(o[3:] for o in ops)},np<={P},n<={N}]", setup, body)


# ==========================================================================================================================================

def obligations(tier):
    obs = []
    if tier == "quick":
        for n in (1, 2, 3, 4):
            obs.append(mk_overlap_kernel(n))
        for n in (2, 3):
            obs.append(mk_window_arith("rolling", n, False))
            obs.append(mk_window_arith("rolling", n, True))
        for kind in ("shift", "diff", "ffill", "bfill"):
            obs.append(mk_window_arith(kind, 3 if kind == "shift" else 2))
        obs.append(ob_cum_symbolic(3, 4, ("cumsum",)))
        obs.append(ob_cum_symbolic(3, 3, ("cumprod", "cummin", "cummax")))
        obs += [ob_rolling_int(3, 4, 4), ob_rolling_time(3, 4, (1, 2, 3, 5, 7)), ob_cumulative(3, 3), ob_shift_diff(3, 4, 3), ob_fill(3, 4, 2),
                ob_map_overlap(3, 4, 2)]
    else:
        for n in (1, 2, 3, 4, 5, 6):
            obs.append(mk_overlap_kernel(n))
        for n in (2, 3, 4):
            obs.append(mk_window_arith("rolling", n, False))
            obs.append(mk_window_arith("rolling", n, True))
            for kind in ("shift", "diff", "ffill", "bfill"):
                obs.append(mk_window_arith(kind, n))
        obs.append(ob_cum_symbolic(4, 5, ("cumsum",)))
        obs.append(ob_cum_symbolic(4, 4, ("cumprod", "cummin", "cummax")))
        obs += [ob_rolling_int(4, 6, 5), ob_rolling_time(4, 6, (1, 2, 3, 4, 5, 7, 9)), ob_cumulative(4, 4), ob_cumulative(3, 5), ob_shift_diff(4, 6, 4), ob_fill(4, 4, 3),
                ob_fill(3, 5, 4), ob_map_overlap(4, 6, 3)]
    return obs
