import sys, types, importlib.machinery
__version__ = "21.0.0"
class _Any:
    def __init__(self, name="x"): self._n = name
    def __getattr__(self, k):
        if k.startswith("__") and k.endswith("__"): raise AttributeError(k)
        return _Any(self._n + "." + k)
    def __call__(self, *a, **k): return _Any(self._n + "()")
    def __mro_entries__(self, bases): return (object,)
    def __repr__(self): return f"<fake {self._n}>"
    def __iter__(self): return iter(())
class _FakeMod(types.ModuleType):
    def __getattr__(self, k):
        if k.startswith("__") and k.endswith("__"): raise AttributeError(k)
        return _Any(self.__name__ + "." + k)
for _n in ["fs", "compute", "dataset", "parquet", "lib", "orc"]:
    _m = _FakeMod("pyarrow." + _n); _m.__path__ = []
    sys.modules["pyarrow." + _n] = _m
    globals()[_n] = _m
def __getattr__(k):
    if k.startswith("__") and k.endswith("__"): raise AttributeError(k)
    return _Any("pyarrow." + k)
