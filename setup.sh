#!/bin/bash
# offline: overlay venv on top of /venv (repo deps) + z3/crosshair from the wheelhouse
set -e
HERE="$(cd "$(dirname "$0")" && pwd)"
if [ -x "$HERE/.venv/bin/python" ] && "$HERE/.venv/bin/python" -c "import z3, crosshair, dask" 2>/dev/null; then
  echo "venv ok"; exit 0
fi
rm -rf "$HERE/.venv"
/venv/bin/python -m venv "$HERE/.venv"
SP="$HERE/.venv/lib/python3.12/site-packages"
echo "import site; site.addsitedir('/venv/lib/python3.12/site-packages')" > "$SP/_overlay.pth"
PIP_NO_INDEX=1 "$HERE/.venv/bin/pip" install -q --no-index --find-links /opt/veriftools/wheels z3-solver crosshair-tool
"$HERE/.venv/bin/python" -c "import z3, crosshair, dask, numpy; print('venv built', z3.get_version_string())"
